//! ISO/IEC 18004 symbol parameters. Only Table 9 (EC codewords per block, number of
//! blocks) is typed; everything else is derived from the symbol geometry.

/// Error-correction levels in the order used everywhere in the harness.
#[derive(Clone, Copy, Debug, PartialEq, Eq, Hash, PartialOrd, Ord)]
pub enum Level {
    L = 0,
    M = 1,
    Q = 2,
    H = 3,
}

pub const LEVELS: [Level; 4] = [Level::L, Level::M, Level::Q, Level::H];

impl Level {
    pub fn from_index(i: usize) -> Level {
        LEVELS[i]
    }
    /// The two format-information bits for this level (ISO Table 12): L=01 M=00 Q=11 H=10
    pub fn format_bits(self) -> u8 {
        match self {
            Level::L => 0b01,
            Level::M => 0b00,
            Level::Q => 0b11,
            Level::H => 0b10,
        }
    }
    pub fn from_format_bits(b: u8) -> Level {
        match b & 3 {
            0b01 => Level::L,
            0b00 => Level::M,
            0b11 => Level::Q,
            _ => Level::H,
        }
    }
    pub fn name(self) -> &'static str {
        ["L", "M", "Q", "H"][self as usize]
    }
}

#[derive(Clone, Copy, Debug, PartialEq, Eq, Hash, PartialOrd, Ord)]
pub enum Mode {
    Numeric = 0,
    Alphanumeric = 1,
    Byte = 2,
}

pub const MODES: [Mode; 3] = [Mode::Numeric, Mode::Alphanumeric, Mode::Byte];

impl Mode {
    pub fn indicator(self) -> u8 {
        match self {
            Mode::Numeric => 0b0001,
            Mode::Alphanumeric => 0b0010,
            Mode::Byte => 0b0100,
        }
    }
    pub fn name(self) -> &'static str {
        ["Numeric", "Alphanumeric", "Byte"][self as usize]
    }
    pub fn from_index(i: usize) -> Mode {
        MODES[i]
    }
}

/// ISO/IEC 18004 Table 9: EC codewords per block, [level][version-1]
#[rustfmt::skip]
pub const EC_PER_BLOCK: [[u8; 40]; 4] = [
    // L
    [ 7, 10, 15, 20, 26, 18, 20, 24, 30, 18, 20, 24, 26, 30, 22, 24, 28, 30, 28, 28,
     28, 28, 30, 30, 26, 28, 30, 30, 30, 30, 30, 30, 30, 30, 30, 30, 30, 30, 30, 30],
    // M
    [10, 16, 26, 18, 24, 16, 18, 22, 22, 26, 30, 22, 22, 24, 24, 28, 28, 26, 26, 26,
     26, 28, 28, 28, 28, 28, 28, 28, 28, 28, 28, 28, 28, 28, 28, 28, 28, 28, 28, 28],
    // Q
    [13, 22, 18, 26, 18, 24, 18, 22, 20, 24, 28, 26, 24, 20, 30, 24, 28, 28, 26, 30,
     28, 30, 30, 30, 30, 28, 30, 30, 30, 30, 30, 30, 30, 30, 30, 30, 30, 30, 30, 30],
    // H
    [17, 28, 22, 16, 22, 28, 26, 26, 24, 28, 24, 28, 22, 24, 24, 30, 28, 28, 26, 28,
     30, 24, 30, 30, 30, 30, 30, 30, 30, 30, 30, 30, 30, 30, 30, 30, 30, 30, 30, 30],
];

/// ISO/IEC 18004 Table 9: number of EC blocks, [level][version-1]
#[rustfmt::skip]
pub const NUM_BLOCKS: [[u8; 40]; 4] = [
    // L
    [ 1,  1,  1,  1,  1,  2,  2,  2,  2,  4,  4,  4,  4,  4,  6,  6,  6,  6,  7,  8,
      8,  9,  9, 10, 12, 12, 12, 13, 14, 15, 16, 17, 18, 19, 19, 20, 21, 22, 24, 25],
    // M
    [ 1,  1,  1,  2,  2,  4,  4,  4,  5,  5,  5,  8,  9,  9, 10, 10, 11, 13, 14, 16,
     17, 17, 18, 20, 21, 23, 25, 26, 28, 29, 31, 33, 35, 37, 38, 40, 43, 45, 47, 49],
    // Q
    [ 1,  1,  2,  2,  4,  4,  6,  6,  8,  8,  8, 10, 12, 16, 12, 17, 16, 18, 21, 20,
     23, 23, 25, 27, 29, 34, 34, 35, 38, 40, 43, 45, 48, 51, 53, 56, 59, 62, 65, 68],
    // H
    [ 1,  1,  2,  4,  4,  4,  5,  6,  8,  8, 11, 11, 16, 16, 18, 16, 19, 21, 25, 25,
     25, 34, 30, 32, 35, 37, 40, 42, 45, 48, 51, 54, 57, 60, 63, 66, 70, 74, 77, 81],
];

pub fn size(version: usize) -> usize {
    assert!((1..=40).contains(&version));
    17 + 4 * version
}

pub fn version_from_size(size: usize) -> Option<usize> {
    if size < 21 || size > 177 || (size - 17) % 4 != 0 {
        return None;
    }
    Some((size - 17) / 4)
}

/// Alignment pattern centre coordinates (ISO Annex E), from the spacing rule:
/// first centre 6, last centre size-7, even step, as uniform as possible with the
/// uneven gap (if any) between the first and the second centre; v32 is the exception.
pub fn alignment_centres(version: usize) -> Vec<usize> {
    if version == 1 {
        return vec![];
    }
    let n = version / 7 + 2;
    let step = if version == 32 {
        26
    } else {
        (version * 4 + n * 2 + 1) / (n * 2 - 2) * 2
    };
    let mut out = vec![0usize; n];
    out[0] = 6;
    let mut pos = size(version) - 7;
    for i in (1..n).rev() {
        out[i] = pos;
        pos = pos.wrapping_sub(step);
    }
    out
}

/// Number of modules available for data + EC + remainder, from the geometry.
pub fn raw_data_modules(version: usize) -> usize {
    let v = version;
    let mut r = (16 * v + 128) * v + 64;
    if v >= 2 {
        let n = v / 7 + 2;
        r -= (25 * n - 10) * n - 55;
        if v >= 7 {
            r -= 36;
        }
    }
    r
}

pub fn total_codewords(version: usize) -> usize {
    raw_data_modules(version) / 8
}

pub fn remainder_bits(version: usize) -> usize {
    raw_data_modules(version) % 8
}

pub fn ec_per_block(version: usize, level: Level) -> usize {
    EC_PER_BLOCK[level as usize][version - 1] as usize
}

pub fn num_blocks(version: usize, level: Level) -> usize {
    NUM_BLOCKS[level as usize][version - 1] as usize
}

pub fn data_codewords(version: usize, level: Level) -> usize {
    total_codewords(version) - ec_per_block(version, level) * num_blocks(version, level)
}

/// Block layout: (number of short blocks, short data length, number of long blocks, long data length)
/// ISO rule: total/blocks short blocks first, the `total mod blocks` long blocks (one more data
/// codeword) last.
#[derive(Clone, Copy, Debug, PartialEq, Eq)]
pub struct Layout {
    pub blocks: usize,
    pub ec: usize,
    pub short_blocks: usize,
    pub short_data: usize,
    pub long_blocks: usize,
    pub long_data: usize,
}

pub fn layout(version: usize, level: Level) -> Layout {
    let total = total_codewords(version);
    let blocks = num_blocks(version, level);
    let ec = ec_per_block(version, level);
    let short_total = total / blocks;
    let long_blocks = total % blocks;
    let short_blocks = blocks - long_blocks;
    Layout {
        blocks,
        ec,
        short_blocks,
        short_data: short_total - ec,
        long_blocks,
        long_data: short_total - ec + 1,
    }
}

impl Layout {
    /// data length of block b
    pub fn data_len(&self, b: usize) -> usize {
        if b < self.short_blocks {
            self.short_data
        } else {
            self.long_data
        }
    }
}

/// Character-count-indicator width
pub fn cci_bits(version: usize, mode: Mode) -> usize {
    let class = if version <= 9 {
        0
    } else if version <= 26 {
        1
    } else {
        2
    };
    match mode {
        Mode::Numeric => [10, 12, 14][class],
        Mode::Alphanumeric => [9, 11, 13][class],
        Mode::Byte => [8, 16, 16][class],
    }
}

/// Payload bits for `len` characters in `mode` (without indicator and count)
pub fn payload_bits(mode: Mode, len: usize) -> usize {
    match mode {
        Mode::Numeric => 10 * (len / 3) + [0, 4, 7][len % 3],
        Mode::Alphanumeric => 11 * (len / 2) + 6 * (len % 2),
        Mode::Byte => 8 * len,
    }
}

pub fn fits(version: usize, level: Level, mode: Mode, len: usize) -> bool {
    let cci = cci_bits(version, mode);
    if cci < 64 && len >= (1usize << cci) {
        return false;
    }
    4 + cci + payload_bits(mode, len) <= 8 * data_codewords(version, level)
}

/// Largest number of characters that fits
pub fn capacity(version: usize, level: Level, mode: Mode) -> usize {
    // `fits` is monotone in len: binary search between a fitting and a non-fitting length
    let mut lo = 0usize;
    let mut hi = 8 * data_codewords(version, level) + 1;
    while fits(version, level, mode, hi) {
        hi *= 2;
    }
    while hi - lo > 1 {
        let mid = (lo + hi) / 2;
        if fits(version, level, mode, mid) {
            lo = mid;
        } else {
            hi = mid;
        }
    }
    lo
}

/// Smallest version that holds `len` characters, or None
pub fn min_version(level: Level, mode: Mode, len: usize) -> Option<usize> {
    (1..=40).find(|&v| fits(v, level, mode, len))
}

/// 45-character alphanumeric set value
pub fn alnum_value(c: u8) -> Option<u8> {
    const SET: &[u8; 45] = b"0123456789ABCDEFGHIJKLMNOPQRSTUVWXYZ $%*+-./:";
    SET.iter().position(|&x| x == c).map(|p| p as u8)
}

pub const ALNUM_SET: &[u8; 45] = b"0123456789ABCDEFGHIJKLMNOPQRSTUVWXYZ $%*+-./:";

/// Most compact single mode that can represent the input (the C09 oracle)
pub fn classify(input: &[u8]) -> Mode {
    if input.iter().all(|c| (b'0'..=b'9').contains(c)) {
        Mode::Numeric
    } else if input.iter().all(|&c| alnum_value(c).is_some()) {
        Mode::Alphanumeric
    } else {
        Mode::Byte
    }
}

pub fn in_alphabet(mode: Mode, input: &[u8]) -> bool {
    match mode {
        Mode::Numeric => input.iter().all(|c| c.is_ascii_digit()),
        Mode::Alphanumeric => input.iter().all(|&c| alnum_value(c).is_some()),
        Mode::Byte => true,
    }
}

#[cfg(test)]
mod tests {
    use super::*;

    #[test]
    fn table9_identities() {
        for v in 1..=40 {
            for &l in &LEVELS {
                let lay = layout(v, l);
                let total = total_codewords(v);
                assert_eq!(
                    lay.short_blocks * (lay.short_data + lay.ec)
                        + lay.long_blocks * (lay.long_data + lay.ec),
                    total
                );
                assert!(lay.short_data + lay.ec <= 255 && lay.long_data + lay.ec <= 255);
                assert!(lay.short_data >= 1);
            }
            // more EC from L to H
            assert!(data_codewords(v, Level::L) > data_codewords(v, Level::M));
            assert!(data_codewords(v, Level::M) > data_codewords(v, Level::Q));
            assert!(data_codewords(v, Level::Q) > data_codewords(v, Level::H));
        }
        for v in 1..=40 {
            for &l in &LEVELS {
                for &m in &MODES {
                    assert!(capacity(v, l, m) < (1usize << cci_bits(v, m)));
                    assert!(fits(v, l, m, capacity(v, l, m)));
                    assert!(!fits(v, l, m, capacity(v, l, m) + 1));
                }
            }
        }
        // spot values from the standard
        assert_eq!(total_codewords(1), 26);
        assert_eq!(total_codewords(40), 3706);
        assert_eq!(data_codewords(1, Level::L), 19);
        assert_eq!(data_codewords(40, Level::L), 2956);
        assert_eq!(data_codewords(40, Level::H), 1276);
        assert_eq!(remainder_bits(2), 7);
        assert_eq!(remainder_bits(14), 3);
        assert_eq!(remainder_bits(21), 4);
        assert_eq!(capacity(40, Level::L, Mode::Numeric), 7089);
        assert_eq!(capacity(40, Level::L, Mode::Alphanumeric), 4296);
        assert_eq!(capacity(40, Level::L, Mode::Byte), 2953);
        assert_eq!(capacity(1, Level::H, Mode::Byte), 7);
        assert_eq!(capacity(1, Level::L, Mode::Numeric), 41);
    }

    #[test]
    fn alignment_rule() {
        for v in 2..=40 {
            let c = alignment_centres(v);
            assert_eq!(c[0], 6);
            assert_eq!(*c.last().unwrap(), size(v) - 7);
            assert_eq!(c.len(), v / 7 + 2);
            for w in c.windows(2) {
                assert!(w[1] > w[0]);
                assert_eq!((w[1] - w[0]) % 2, 0);
            }
            // all gaps but the first are equal
            if c.len() > 2 {
                let step = c[2] - c[1];
                for w in c[1..].windows(2) {
                    assert_eq!(w[1] - w[0], step);
                }
            }
        }
        assert_eq!(alignment_centres(7), vec![6, 22, 38]);
        assert_eq!(alignment_centres(32), vec![6, 34, 60, 86, 112, 138]);
        assert_eq!(alignment_centres(40), vec![6, 30, 58, 86, 114, 142, 170]);
        assert_eq!(alignment_centres(36), vec![6, 24, 50, 76, 102, 128, 154]);
    }
}
