//! GF(2^8) modulo x^8+x^4+x^3+x^2+1 (0x11D), generator alpha = 2.
//! Everything here is computed; no literal tables.

use std::sync::OnceLock;

/// Carry-less "Russian peasant" multiplication with reduction by 0x11D.
pub fn mul_slow(mut a: u8, mut b: u8) -> u8 {
    let mut r: u8 = 0;
    while b != 0 {
        if b & 1 != 0 {
            r ^= a;
        }
        let hi = a & 0x80 != 0;
        a <<= 1;
        if hi {
            a ^= 0x1D; // 0x11D without the x^8 term
        }
        b >>= 1;
    }
    r
}

pub struct Tables {
    /// exp[i] = alpha^i, i in 0..510 (doubled to avoid a modulo)
    pub exp: [u8; 512],
    /// log[x] = i with alpha^i = x (log[0] unused)
    pub log: [u16; 256],
}

pub fn tables() -> &'static Tables {
    static T: OnceLock<Tables> = OnceLock::new();
    T.get_or_init(|| {
        let mut exp = [0u8; 512];
        let mut log = [0u16; 256];
        let mut x: u8 = 1;
        for i in 0..255 {
            exp[i] = x;
            log[x as usize] = i as u16;
            x = mul_slow(x, 2);
        }
        assert_eq!(x, 1, "alpha must have order 255");
        for i in 255..512 {
            exp[i] = exp[i - 255];
        }
        Tables { exp, log }
    })
}

#[inline]
pub fn mul(a: u8, b: u8) -> u8 {
    if a == 0 || b == 0 {
        return 0;
    }
    let t = tables();
    t.exp[(t.log[a as usize] + t.log[b as usize]) as usize]
}

#[inline]
pub fn inv(a: u8) -> u8 {
    assert!(a != 0);
    let t = tables();
    t.exp[(255 - t.log[a as usize]) as usize % 255]
}

#[inline]
pub fn div(a: u8, b: u8) -> u8 {
    mul(a, inv(b))
}

/// alpha^i for any non-negative i
#[inline]
pub fn alpha_pow(i: usize) -> u8 {
    tables().exp[i % 255]
}

/// x^e
pub fn pow(x: u8, e: usize) -> u8 {
    if e == 0 {
        return 1;
    }
    if x == 0 {
        return 0;
    }
    let t = tables();
    t.exp[(t.log[x as usize] as usize * e) % 255]
}

/// Generator polynomial g(x) = prod_{i<ec} (x - alpha^i); coefficients from the
/// highest degree (monic, index 0 is 1) to the constant term. Length ec+1.
pub fn generator(ec: usize) -> Vec<u8> {
    let mut g = vec![1u8];
    for i in 0..ec {
        // multiply by (x + alpha^i)
        let a = alpha_pow(i);
        let mut next = vec![0u8; g.len() + 1];
        for (k, &c) in g.iter().enumerate() {
            next[k] ^= c; // * x
            next[k + 1] ^= mul(c, a); // * alpha^i
        }
        g = next;
    }
    g
}

/// Remainder of data(x) * x^ec divided by g(x); `ec` coefficients, high degree first.
pub fn rs_remainder(data: &[u8], ec: usize) -> Vec<u8> {
    let g = generator(ec);
    rs_remainder_with(data, &g)
}

pub fn rs_remainder_with(data: &[u8], g: &[u8]) -> Vec<u8> {
    let ec = g.len() - 1;
    let mut buf: Vec<u8> = data.to_vec();
    buf.extend(std::iter::repeat(0).take(ec));
    for i in 0..data.len() {
        let c = buf[i];
        if c == 0 {
            continue;
        }
        for (k, &gk) in g.iter().enumerate() {
            buf[i + k] ^= mul(gk, c);
        }
    }
    buf[data.len()..].to_vec()
}

/// Evaluate polynomial (high degree first) at x, Horner.
pub fn poly_eval(p: &[u8], x: u8) -> u8 {
    let mut acc = 0u8;
    for &c in p {
        acc = mul(acc, x) ^ c;
    }
    acc
}

/// Syndromes S_i = block(alpha^i), i in 0..ec; block is data followed by EC, high degree first.
pub fn syndromes(block: &[u8], ec: usize) -> Vec<u8> {
    (0..ec).map(|i| poly_eval(block, alpha_pow(i))).collect()
}

/// Standard Reed-Solomon decoder (Berlekamp-Massey, Chien search, Forney).
/// `block` is data||ec (high degree first). Corrects up to ec/2 symbol errors in place.
/// Returns the number of corrected symbols, or Err if uncorrectable.
pub fn rs_correct(block: &mut [u8], ec: usize) -> Result<usize, String> {
    let n = block.len();
    let synd = syndromes(block, ec);
    if synd.iter().all(|&s| s == 0) {
        return Ok(0);
    }
    // Berlekamp-Massey: error locator sigma(x), low degree first.
    let mut sigma: Vec<u8> = vec![1];
    let mut b: Vec<u8> = vec![1];
    let mut l: usize = 0;
    let mut m: usize = 1;
    let mut bb: u8 = 1;
    for r in 0..ec {
        let mut d = synd[r];
        for i in 1..=l {
            if i < sigma.len() {
                d ^= mul(sigma[i], synd[r - i]);
            }
        }
        if d == 0 {
            m += 1;
        } else if 2 * l <= r {
            let t = sigma.clone();
            let coef = div(d, bb);
            if sigma.len() < b.len() + m {
                sigma.resize(b.len() + m, 0);
            }
            for (i, &bi) in b.iter().enumerate() {
                sigma[i + m] ^= mul(coef, bi);
            }
            l = r + 1 - l;
            b = t;
            bb = d;
            m = 1;
        } else {
            let coef = div(d, bb);
            if sigma.len() < b.len() + m {
                sigma.resize(b.len() + m, 0);
            }
            for (i, &bi) in b.iter().enumerate() {
                sigma[i + m] ^= mul(coef, bi);
            }
            m += 1;
        }
    }
    while sigma.len() > 1 && *sigma.last().unwrap() == 0 {
        sigma.pop();
    }
    let nerr = sigma.len() - 1;
    if nerr != l || nerr > ec / 2 {
        return Err(format!("locator degree {} inconsistent (L={}, ec={})", nerr, l, ec));
    }
    // Chien search: position p (power of x, 0 = last byte) is in error iff sigma(alpha^-p) == 0
    let mut positions: Vec<usize> = Vec::new();
    for p in 0..n {
        let xinv = alpha_pow((255 - (p % 255)) % 255);
        let mut acc = 0u8;
        for (i, &c) in sigma.iter().enumerate() {
            acc ^= mul(c, pow(xinv, i));
        }
        if acc == 0 {
            positions.push(p);
        }
    }
    if positions.len() != nerr {
        return Err(format!("chien found {} roots for degree {}", positions.len(), nerr));
    }
    // omega(x) = synd(x) * sigma(x) mod x^ec  (low degree first)
    let mut omega = vec![0u8; ec];
    for i in 0..ec {
        for j in 0..sigma.len() {
            if i + j < ec {
                omega[i + j] ^= mul(synd[i], sigma[j]);
            }
        }
    }
    // sigma'(x): formal derivative (char 2 -> only odd terms survive)
    let mut dsigma = vec![0u8; sigma.len().saturating_sub(1).max(1)];
    for i in (1..sigma.len()).step_by(2) {
        dsigma[i - 1] = sigma[i];
    }
    for &p in &positions {
        let x = alpha_pow(p % 255);
        let xinv = inv(x);
        let mut om = 0u8;
        for (i, &c) in omega.iter().enumerate() {
            om ^= mul(c, pow(xinv, i));
        }
        let mut ds = 0u8;
        for (i, &c) in dsigma.iter().enumerate() {
            ds ^= mul(c, pow(xinv, i));
        }
        if ds == 0 {
            return Err("forney: zero derivative".into());
        }
        // first consecutive root is alpha^0 -> magnitude = x^(1-0) * omega(x^-1)/sigma'(x^-1)
        let mag = mul(x, div(om, ds));
        let idx = n - 1 - p;
        block[idx] ^= mag;
    }
    let check = syndromes(block, ec);
    if check.iter().any(|&s| s != 0) {
        return Err("syndromes non-zero after correction".into());
    }
    Ok(nerr)
}

#[cfg(test)]
mod tests {
    use super::*;

    #[test]
    fn field_axioms_sample() {
        for a in 0..=255u8 {
            assert_eq!(mul(a, 1), a);
            assert_eq!(mul(a, 0), 0);
            for b in 0..=255u8 {
                assert_eq!(mul(a, b), mul_slow(a, b));
            }
            if a != 0 {
                assert_eq!(mul(a, inv(a)), 1);
            }
        }
    }

    #[test]
    fn generator_degree_7_known() {
        // ISO Annex A: degree 7 generator exponents 0,87,229,146,149,238,102,21
        let g = generator(7);
        let exps = [0usize, 87, 229, 146, 149, 238, 102, 21];
        for (c, e) in g.iter().zip(exps.iter()) {
            assert_eq!(*c, alpha_pow(*e));
        }
    }

    #[test]
    fn remainder_makes_codeword() {
        let data: Vec<u8> = (0..50u32).map(|i| (i * 37 + 11) as u8).collect();
        for ec in [7usize, 10, 13, 17, 22, 30] {
            let r = rs_remainder(&data, ec);
            let mut block = data.clone();
            block.extend(&r);
            assert!(syndromes(&block, ec).iter().all(|&s| s == 0));
            // corrupt ec/2 symbols and correct
            let mut bad = block.clone();
            for k in 0..ec / 2 {
                bad[(k * 5 + 1) % block.len()] ^= (k as u8 + 1) * 3 + 1;
            }
            let n = rs_correct(&mut bad, ec).unwrap();
            assert!(n <= ec / 2);
            assert_eq!(bad, block);
        }
    }
}
