//! The mask penalty fast_qr documents (src/score.rs `score` doc comment, C11 statement):
//! * 40 per window `1011101` of seven consecutive encoding-region modules, along every row and column
//! * N-2 per maximal run of N >= 5 equal consecutive encoding-region modules, rows and columns
//! * 3 per 2x2 block of four equal encoding-region modules
//! * 10 per 5% step of the dark-module percentage (floored integer percent over all modules) away from 50%

use crate::geom::{geometry, Region};

#[derive(Clone, Copy, Debug, Default, PartialEq, Eq)]
pub struct Penalty {
    pub row_runs: u32,
    pub col_runs: u32,
    pub row_patterns: u32,
    pub col_patterns: u32,
    pub squares: u32,
    pub dark: u32,
}

impl Penalty {
    pub fn total(&self) -> u32 {
        self.row_runs + self.col_runs + self.row_patterns + self.col_patterns + self.squares + self.dark
    }
    /// the total with the column terms removed (signature of a row-only scorer)
    pub fn total_rows_only(&self) -> u32 {
        self.row_runs + self.row_patterns + self.squares + self.dark
    }
}

/// One line (row or column): values and whether each module is in the encoding region.
fn line(vals: &[bool], enc: &[bool]) -> (u32, u32) {
    let n = vals.len();
    let mut runs = 0u32;
    let mut i = 0;
    while i < n {
        if !enc[i] {
            i += 1;
            continue;
        }
        let mut j = i + 1;
        while j < n && enc[j] && vals[j] == vals[i] {
            j += 1;
        }
        let len = (j - i) as u32;
        if len >= 5 {
            runs += len - 2;
        }
        i = j;
    }
    let mut patterns = 0u32;
    const PAT: [bool; 7] = [true, false, true, true, true, false, true];
    if n >= 7 {
        for s in 0..=n - 7 {
            if (0..7).all(|k| enc[s + k] && vals[s + k] == PAT[k]) {
                patterns += 40;
            }
        }
    }
    (runs, patterns)
}

pub fn dark_score(dark: usize, total: usize) -> u32 {
    let p = (100 * dark / total) as i64;
    let steps = if p >= 50 { (p - 50) / 5 } else { (49 - p) / 5 };
    (10 * steps) as u32
}

/// `m` row-major module values of a symbol of the given version.
pub fn penalty(m: &[bool], version: usize) -> Penalty {
    let g = geometry(version);
    let n = g.size;
    let enc: Vec<bool> = g.region.iter().map(|&r| r == Region::Encoding).collect();
    let mut p = Penalty::default();
    let mut vbuf = vec![false; n];
    let mut ebuf = vec![false; n];
    for r in 0..n {
        let (a, b) = line(&m[r * n..(r + 1) * n], &enc[r * n..(r + 1) * n]);
        p.row_runs += a;
        p.row_patterns += b;
    }
    for c in 0..n {
        for r in 0..n {
            vbuf[r] = m[r * n + c];
            ebuf[r] = enc[r * n + c];
        }
        let (a, b) = line(&vbuf, &ebuf);
        p.col_runs += a;
        p.col_patterns += b;
    }
    for r in 0..n - 1 {
        for c in 0..n - 1 {
            let i = r * n + c;
            if enc[i] && enc[i + 1] && enc[i + n] && enc[i + n + 1] {
                let v = m[i];
                if m[i + 1] == v && m[i + n] == v && m[i + n + 1] == v {
                    p.squares += 3;
                }
            }
        }
    }
    let dark = m[..n * n].iter().filter(|&&b| b).count();
    p.dark = dark_score(dark, n * n);
    p
}
