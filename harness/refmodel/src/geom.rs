//! Symbol geometry drawn from the ISO/IEC 18004 figures: region map, fixed module values,
//! format / version information coordinates, zig-zag placement order, mask predicates, BCH codes.

use crate::tables::{alignment_centres, size};
use std::sync::OnceLock;

#[derive(Clone, Copy, Debug, PartialEq, Eq, Hash)]
pub enum Region {
    /// data / EC / remainder modules
    Encoding,
    Finder,
    Separator,
    Timing,
    Alignment,
    Format,
    Version,
    DarkModule,
}

impl Region {
    pub fn name(self) -> &'static str {
        match self {
            Region::Encoding => "Encoding",
            Region::Finder => "Finder",
            Region::Separator => "Separator",
            Region::Timing => "Timing",
            Region::Alignment => "Alignment",
            Region::Format => "Format",
            Region::Version => "Version",
            Region::DarkModule => "DarkModule",
        }
    }
}

/// Per-version geometry. Index = row * size + col.
pub struct Geometry {
    pub version: usize,
    pub size: usize,
    pub region: Vec<Region>,
    /// Some(dark?) for modules whose value is fixed by the standard independent of data
    /// (finder, separator, timing, alignment, dark module); None for encoding/format/version.
    pub fixed: Vec<Option<bool>>,
    /// (row, col) of every encoding-region module in placement order
    pub order: Vec<(usize, usize)>,
    /// two copies of the format information: positions of bit 0 (LSB) .. bit 14
    pub format_pos: [[(usize, usize); 15]; 2],
    /// two copies of version information (empty for v<7): positions of bit 0 .. bit 17
    pub version_pos: [Vec<(usize, usize)>; 2],
}

impl Geometry {
    pub fn idx(&self, r: usize, c: usize) -> usize {
        r * self.size + c
    }
    pub fn count(&self, reg: Region) -> usize {
        self.region.iter().filter(|&&x| x == reg).count()
    }
}

fn build(version: usize) -> Geometry {
    let n = size(version);
    let mut region = vec![Region::Encoding; n * n];
    let mut fixed: Vec<Option<bool>> = vec![None; n * n];
    let set = |region: &mut Vec<Region>, fixed: &mut Vec<Option<bool>>, r: usize, c: usize, reg: Region, v: Option<bool>| {
        region[r * n + c] = reg;
        fixed[r * n + c] = v;
    };

    // Timing patterns: row 6 and column 6, dark on even coordinates (drawn first; finder,
    // separator and alignment patterns drawn later take precedence where they overlap).
    for i in 0..n {
        set(&mut region, &mut fixed, 6, i, Region::Timing, Some(i % 2 == 0));
        set(&mut region, &mut fixed, i, 6, Region::Timing, Some(i % 2 == 0));
    }

    // Finder patterns (7x7: dark ring, light ring, dark 3x3) with a one-module light separator.
    for &(cr, cc) in &[(3i64, 3i64), (3, n as i64 - 4), (n as i64 - 4, 3)] {
        for dr in -4i64..=4 {
            for dc in -4i64..=4 {
                let r = cr + dr;
                let c = cc + dc;
                if r < 0 || c < 0 || r >= n as i64 || c >= n as i64 {
                    continue;
                }
                let dist = dr.abs().max(dc.abs());
                if dist == 4 {
                    set(&mut region, &mut fixed, r as usize, c as usize, Region::Separator, Some(false));
                } else {
                    set(&mut region, &mut fixed, r as usize, c as usize, Region::Finder, Some(dist != 2));
                }
            }
        }
    }

    // Alignment patterns (5x5: dark ring, light ring, dark centre) at every pair of centre
    // coordinates except the three that would overlap a finder pattern.
    let centres = alignment_centres(version);
    let k = centres.len();
    for (i, &ar) in centres.iter().enumerate() {
        for (j, &ac) in centres.iter().enumerate() {
            let overlaps_finder = (i == 0 && j == 0) || (i == 0 && j == k - 1) || (i == k - 1 && j == 0);
            if overlaps_finder {
                continue;
            }
            for dr in -2i64..=2 {
                for dc in -2i64..=2 {
                    let dist = dr.abs().max(dc.abs());
                    let r = (ar as i64 + dr) as usize;
                    let c = (ac as i64 + dc) as usize;
                    set(&mut region, &mut fixed, r, c, Region::Alignment, Some(dist != 1));
                }
            }
        }
    }

    // Format information (ISO Figure 25). Bit 0 is the least significant bit of the 15-bit word.
    let mut f0 = [(0usize, 0usize); 15];
    let mut f1 = [(0usize, 0usize); 15];
    // copy 1, around the top-left finder
    for i in 0..=5 {
        f0[i] = (i, 8);
    }
    f0[6] = (7, 8);
    f0[7] = (8, 8);
    f0[8] = (8, 7);
    for i in 9..15 {
        f0[i] = (8, 14 - i);
    }
    // copy 2, split between top-right (bits 0..7) and bottom-left (bits 8..14)
    for i in 0..8 {
        f1[i] = (8, n - 1 - i);
    }
    for i in 8..15 {
        f1[i] = (n - 15 + i, 8);
    }
    for &(r, c) in f0.iter().chain(f1.iter()) {
        set(&mut region, &mut fixed, r, c, Region::Format, None);
    }

    // Dark module
    set(&mut region, &mut fixed, 4 * version + 9, 8, Region::DarkModule, Some(true));

    // Version information (v >= 7): bit i at (row i/3, col n-11+i%3) top-right, transposed bottom-left
    let mut v0 = Vec::new();
    let mut v1 = Vec::new();
    if version >= 7 {
        for i in 0..18 {
            let a = n - 11 + i % 3;
            let b = i / 3;
            v0.push((b, a)); // top-right block: 6 rows x 3 columns
            v1.push((a, b)); // bottom-left block: 3 rows x 6 columns
        }
        for &(r, c) in v0.iter().chain(v1.iter()) {
            set(&mut region, &mut fixed, r, c, Region::Version, None);
        }
    }

    // Placement order: two-module-wide columns from the right, alternating upwards/downwards,
    // skipping the vertical timing column; within a row the right module comes first.
    let mut order = Vec::new();
    let mut right: i64 = n as i64 - 1;
    let mut upward = true;
    while right >= 1 {
        if right == 6 {
            right = 5;
        }
        for vert in 0..n {
            let r = if upward { n - 1 - vert } else { vert };
            for j in 0..2 {
                let c = (right - j) as usize;
                if region[r * n + c] == Region::Encoding {
                    order.push((r, c));
                }
            }
        }
        upward = !upward;
        right -= 2;
    }

    Geometry {
        version,
        size: n,
        region,
        fixed,
        order,
        format_pos: [f0, f1],
        version_pos: [v0, v1],
    }
}

pub fn geometry(version: usize) -> &'static Geometry {
    static G: OnceLock<Vec<Geometry>> = OnceLock::new();
    let all = G.get_or_init(|| (1..=40).map(build).collect());
    &all[version - 1]
}

/// ISO Table 10 mask conditions; i = row, j = column. true = module is inverted.
pub fn mask_cond(mask: u8, i: usize, j: usize) -> bool {
    match mask {
        0 => (i + j) % 2 == 0,
        1 => i % 2 == 0,
        2 => j % 3 == 0,
        3 => (i + j) % 3 == 0,
        4 => (i / 2 + j / 3) % 2 == 0,
        5 => (i * j) % 2 + (i * j) % 3 == 0,
        6 => ((i * j) % 2 + (i * j) % 3) % 2 == 0,
        7 => ((i + j) % 2 + (i * j) % 3) % 2 == 0,
        _ => panic!("mask out of range"),
    }
}

/// BCH(15,5) format information word, masked with 101010000010010.
pub fn format_word(level_bits: u8, mask: u8) -> u16 {
    let data: u32 = ((level_bits as u32 & 3) << 3) | (mask as u32 & 7);
    let mut rem = data << 10;
    for i in (10..15).rev() {
        if rem & (1 << i) != 0 {
            rem ^= 0x537 << (i - 10);
        }
    }
    (((data << 10) | rem) ^ 0x5412) as u16
}

/// Decode a 15-bit format word: exact match only (strict); returns (level_bits, mask)
pub fn format_decode_strict(word: u16) -> Option<(u8, u8)> {
    for lb in 0..4u8 {
        for m in 0..8u8 {
            if format_word(lb, m) == word {
                return Some((lb, m));
            }
        }
    }
    None
}

/// Nearest-codeword decode (up to 3 bit errors, the correction capacity of the code)
pub fn format_decode_nearest(word: u16) -> Option<(u8, u8)> {
    let mut best = None;
    for lb in 0..4u8 {
        for m in 0..8u8 {
            let d = (format_word(lb, m) ^ word).count_ones();
            if d <= 3 {
                best = Some((lb, m));
            }
        }
    }
    best
}

/// BCH(18,6) version information word.
pub fn version_word(version: usize) -> u32 {
    let data = version as u32;
    let mut rem = data << 12;
    for i in (12..18).rev() {
        if rem & (1 << i) != 0 {
            rem ^= 0x1F25 << (i - 12);
        }
    }
    (data << 12) | rem
}

#[cfg(test)]
mod tests {
    use super::*;
    use crate::tables::raw_data_modules;

    #[test]
    fn bch_known_values() {
        // ISO Annex C example: level M (00), mask 5 (101) -> 100000011001110
        assert_eq!(format_word(0b00, 5), 0b100_0000_1100_1110);
        // ISO Annex D example: version 7 -> 000111110010010100
        assert_eq!(version_word(7), 0b00_0111_1100_1001_0100);
        // all 32 format words are at Hamming distance >= 7 from each other
        let mut words = vec![];
        for lb in 0..4 {
            for m in 0..8 {
                words.push(format_word(lb, m));
            }
        }
        for a in 0..32 {
            for b in 0..a {
                assert!((words[a] ^ words[b]).count_ones() >= 7);
            }
        }
    }

    #[test]
    fn encoding_region_matches_geometry_formula() {
        for v in 1..=40 {
            let g = geometry(v);
            assert_eq!(g.order.len(), raw_data_modules(v), "v{}", v);
            assert_eq!(g.count(Region::Encoding), raw_data_modules(v));
            assert_eq!(g.count(Region::Format), 30);
            assert_eq!(g.count(Region::DarkModule), 1);
            assert_eq!(g.count(Region::Version), if v >= 7 { 36 } else { 0 });
            assert_eq!(g.count(Region::Finder), 3 * 49);
            assert_eq!(g.count(Region::Separator), 3 * 15);
            // each encoding module exactly once in the order
            let mut seen = vec![false; g.size * g.size];
            for &(r, c) in &g.order {
                assert!(!seen[r * g.size + c]);
                seen[r * g.size + c] = true;
                assert_eq!(g.region[r * g.size + c], Region::Encoding);
            }
        }
    }
}
