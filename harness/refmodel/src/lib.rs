//! Independent reference model of the parts of ISO/IEC 18004 quoted by the fast_qr properties.
//! Shares no code, table or layout with fast_qr and does not depend on it.

pub mod codec;
pub mod geom;
pub mod gf;
pub mod penalty;
pub mod tables;
