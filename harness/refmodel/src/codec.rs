//! Reference encoder (ISO/IEC 18004 7.4: one segment, terminator, padding; 7.5/7.6: RS blocks,
//! interleaving; 7.7: placement; 7.8: masking; 7.9/7.10 format and version information) and the
//! strict reference decoder used as oracle.

use crate::geom::{format_decode_strict, format_word, geometry, mask_cond, version_word, Region};
use crate::gf;
use crate::tables::*;

pub struct BitWriter {
    pub bits: Vec<bool>,
}

impl BitWriter {
    pub fn new() -> Self {
        BitWriter { bits: Vec::new() }
    }
    pub fn push(&mut self, value: usize, width: usize) {
        for i in (0..width).rev() {
            self.bits.push((value >> i) & 1 == 1);
        }
    }
    pub fn len(&self) -> usize {
        self.bits.len()
    }
    pub fn to_bytes(&self) -> Vec<u8> {
        assert!(self.bits.len() % 8 == 0);
        self.bits
            .chunks(8)
            .map(|c| c.iter().fold(0u8, |a, &b| (a << 1) | b as u8))
            .collect()
    }
}

/// The bit stream of the segment only (mode indicator, count, payload), no terminator.
pub fn segment_bits(mode: Mode, input: &[u8], version: usize) -> BitWriter {
    assert!(in_alphabet(mode, input), "input outside the mode's alphabet");
    let mut w = BitWriter::new();
    w.push(mode.indicator() as usize, 4);
    w.push(input.len(), cci_bits(version, mode));
    match mode {
        Mode::Numeric => {
            for chunk in input.chunks(3) {
                let mut v = 0usize;
                for &d in chunk {
                    v = v * 10 + (d - b'0') as usize;
                }
                w.push(v, [0, 4, 7, 10][chunk.len()]);
            }
        }
        Mode::Alphanumeric => {
            for chunk in input.chunks(2) {
                if chunk.len() == 2 {
                    let a = alnum_value(chunk[0]).unwrap() as usize;
                    let b = alnum_value(chunk[1]).unwrap() as usize;
                    w.push(45 * a + b, 11);
                } else {
                    w.push(alnum_value(chunk[0]).unwrap() as usize, 6);
                }
            }
        }
        Mode::Byte => {
            for &b in input {
                w.push(b as usize, 8);
            }
        }
    }
    w
}

/// Information about how the data codewords were finished, for labelling.
#[derive(Clone, Copy, Debug, Default)]
pub struct PadInfo {
    pub segment_bits: usize,
    pub spare_bits_before_terminator: usize,
    pub terminator_bits: usize,
    pub align_bits: usize,
    pub pad_codewords: usize,
}

/// All data codewords (exactly `data_codewords(version, level)` of them) for a single segment.
pub fn data_codewords_for(mode: Mode, input: &[u8], version: usize, level: Level) -> Result<(Vec<u8>, PadInfo), String> {
    let cap_bits = 8 * data_codewords(version, level);
    let mut w = segment_bits(mode, input, version);
    let seg = w.len();
    if seg > cap_bits {
        return Err(format!("segment of {} bits exceeds capacity {} bits", seg, cap_bits));
    }
    let spare = cap_bits - seg;
    let term = spare.min(4);
    w.push(0, term);
    let align = (8 - w.len() % 8) % 8;
    w.push(0, align);
    let mut bytes = w.to_bytes();
    let mut pads = 0;
    while bytes.len() < cap_bits / 8 {
        bytes.push(if pads % 2 == 0 { 0xEC } else { 0x11 });
        pads += 1;
    }
    Ok((
        bytes,
        PadInfo {
            segment_bits: seg,
            spare_bits_before_terminator: spare,
            terminator_bits: term,
            align_bits: align,
            pad_codewords: pads,
        },
    ))
}

/// Split data codewords into blocks per Table 9, compute EC per block, interleave.
pub fn interleave(data: &[u8], version: usize, level: Level) -> Vec<u8> {
    let lay = layout(version, level);
    assert_eq!(data.len(), data_codewords(version, level));
    let g = gf::generator(lay.ec);
    let mut blocks: Vec<(Vec<u8>, Vec<u8>)> = Vec::new();
    let mut off = 0;
    for b in 0..lay.blocks {
        let dl = lay.data_len(b);
        let d = data[off..off + dl].to_vec();
        off += dl;
        let e = gf::rs_remainder_with(&d, &g);
        blocks.push((d, e));
    }
    let mut out = Vec::with_capacity(total_codewords(version));
    for i in 0..lay.long_data.max(lay.short_data) {
        for (d, _) in &blocks {
            if i < d.len() {
                out.push(d[i]);
            }
        }
    }
    for i in 0..lay.ec {
        for (_, e) in &blocks {
            out.push(e[i]);
        }
    }
    assert_eq!(out.len(), total_codewords(version));
    out
}

/// Inverse of `interleave`: returns blocks as (data, ec)
pub fn deinterleave(codewords: &[u8], version: usize, level: Level) -> Vec<(Vec<u8>, Vec<u8>)> {
    let lay = layout(version, level);
    assert_eq!(codewords.len(), total_codewords(version));
    let mut blocks: Vec<(Vec<u8>, Vec<u8>)> = (0..lay.blocks)
        .map(|b| (Vec::with_capacity(lay.data_len(b)), Vec::with_capacity(lay.ec)))
        .collect();
    let mut it = codewords.iter();
    for i in 0..lay.long_data.max(lay.short_data) {
        for b in 0..lay.blocks {
            if i < lay.data_len(b) {
                blocks[b].0.push(*it.next().unwrap());
            }
        }
    }
    for _ in 0..lay.ec {
        for b in 0..lay.blocks {
            blocks[b].1.push(*it.next().unwrap());
        }
    }
    assert!(it.next().is_none());
    blocks
}

/// For codeword index k of the interleaved sequence: (block, is_ec, index within the block part)
pub fn interleave_map(version: usize, level: Level) -> Vec<(usize, bool, usize)> {
    let lay = layout(version, level);
    let mut out = Vec::with_capacity(total_codewords(version));
    for i in 0..lay.long_data.max(lay.short_data) {
        for b in 0..lay.blocks {
            if i < lay.data_len(b) {
                out.push((b, false, i));
            }
        }
    }
    for i in 0..lay.ec {
        for b in 0..lay.blocks {
            out.push((b, true, i));
        }
    }
    out
}

/// A complete reference symbol: module values, row-major.
pub fn build_symbol(mode: Mode, input: &[u8], version: usize, level: Level, mask: u8) -> Result<Vec<bool>, String> {
    let (data, _) = data_codewords_for(mode, input, version, level)?;
    Ok(build_symbol_from_data(&data, version, level, mask))
}

pub fn build_symbol_from_data(data: &[u8], version: usize, level: Level, mask: u8) -> Vec<bool> {
    let g = geometry(version);
    let n = g.size;
    let cw = interleave(data, version, level);
    let mut m = vec![false; n * n];
    for i in 0..n * n {
        if let Some(v) = g.fixed[i] {
            m[i] = v;
        }
    }
    for (k, &(r, c)) in g.order.iter().enumerate() {
        let bit = if k / 8 < cw.len() { (cw[k / 8] >> (7 - k % 8)) & 1 == 1 } else { false };
        m[r * n + c] = bit ^ mask_cond(mask, r, c);
    }
    let fw = format_word(level.format_bits(), mask);
    for copy in 0..2 {
        for i in 0..15 {
            let (r, c) = g.format_pos[copy][i];
            m[r * n + c] = (fw >> i) & 1 == 1;
        }
    }
    if version >= 7 {
        let vw = version_word(version);
        for copy in 0..2 {
            for i in 0..18 {
                let (r, c) = g.version_pos[copy][i];
                m[r * n + c] = (vw >> i) & 1 == 1;
            }
        }
    }
    m
}

#[derive(Clone, Debug)]
pub struct Segment {
    pub mode: Mode,
    pub count: usize,
    pub bytes: Vec<u8>,
}

#[derive(Clone, Debug)]
pub struct ReadOut {
    pub version: usize,
    pub level: Level,
    pub mask: u8,
    /// interleaved codewords as read from the symbol after unmasking
    pub codewords: Vec<u8>,
    /// remainder bits after unmasking
    pub remainder: Vec<bool>,
}

/// Strict format / version information check and codeword read-out.
pub fn read_out(m: &[bool], size: usize) -> Result<ReadOut, String> {
    let version = version_from_size(size).ok_or_else(|| format!("size {} is not 17+4v", size))?;
    if m.len() < size * size {
        return Err("matrix shorter than size*size".into());
    }
    let g = geometry(version);
    let n = size;
    let mut words = [0u16; 2];
    for copy in 0..2 {
        for i in 0..15 {
            let (r, c) = g.format_pos[copy][i];
            if m[r * n + c] {
                words[copy] |= 1 << i;
            }
        }
    }
    if words[0] != words[1] {
        return Err(format!("format information copies differ: {:015b} vs {:015b}", words[0], words[1]));
    }
    let (lb, mask) = format_decode_strict(words[0])
        .ok_or_else(|| format!("format information {:015b} is not a BCH(15,5) codeword xor 101010000010010", words[0]))?;
    let level = Level::from_format_bits(lb);
    if version >= 7 {
        let expect = version_word(version);
        for copy in 0..2 {
            let mut w = 0u32;
            for i in 0..18 {
                let (r, c) = g.version_pos[copy][i];
                if m[r * n + c] {
                    w |= 1 << i;
                }
            }
            if w != expect {
                return Err(format!("version information copy {} is {:018b}, expected {:018b} for version {}", copy, w, expect, version));
            }
        }
    }
    let total = total_codewords(version);
    let mut codewords = vec![0u8; total];
    let mut remainder = Vec::new();
    for (k, &(r, c)) in g.order.iter().enumerate() {
        let bit = m[r * n + c] ^ mask_cond(mask, r, c);
        if k / 8 < total {
            if bit {
                codewords[k / 8] |= 1 << (7 - k % 8);
            }
        } else {
            remainder.push(bit);
        }
    }
    Ok(ReadOut { version, level, mask, codewords, remainder })
}

/// Check the fixed function patterns of a symbol; returns the first mismatch.
pub fn check_function_patterns(m: &[bool], size: usize) -> Result<(), String> {
    let version = version_from_size(size).ok_or_else(|| format!("size {} is not 17+4v", size))?;
    let g = geometry(version);
    for r in 0..size {
        for c in 0..size {
            if let Some(v) = g.fixed[r * size + c] {
                if m[r * size + c] != v {
                    return Err(format!(
                        "function module (row {}, col {}) in region {} is {} but must be {}",
                        r,
                        c,
                        g.region[r * size + c].name(),
                        if m[r * size + c] { "dark" } else { "light" },
                        if v { "dark" } else { "light" }
                    ));
                }
            }
        }
    }
    Ok(())
}

struct BitReader<'a> {
    data: &'a [u8],
    pos: usize,
}

impl<'a> BitReader<'a> {
    fn remaining(&self) -> usize {
        self.data.len() * 8 - self.pos
    }
    fn read(&mut self, width: usize) -> Option<usize> {
        if self.remaining() < width {
            return None;
        }
        let mut v = 0usize;
        for _ in 0..width {
            let b = (self.data[self.pos / 8] >> (7 - self.pos % 8)) & 1;
            v = (v << 1) | b as usize;
            self.pos += 1;
        }
        Some(v)
    }
}

#[derive(Clone, Debug)]
pub struct ParsedData {
    pub segments: Vec<Segment>,
    /// bit position where the terminator (or end of capacity) starts
    pub end_of_segments: usize,
    pub terminator_bits: usize,
}

/// Parse segments until a terminator (4 zero bits), fewer than 4 bits remaining, or an error.
/// Does not look at what follows the terminator.
pub fn parse_segments(data: &[u8], version: usize) -> Result<ParsedData, String> {
    let mut r = BitReader { data, pos: 0 };
    let mut segments = Vec::new();
    loop {
        if r.remaining() < 4 {
            break;
        }
        let save = r.pos;
        let ind = r.read(4).unwrap();
        if ind == 0 {
            r.pos = save;
            break;
        }
        let mode = match ind {
            0b0001 => Mode::Numeric,
            0b0010 => Mode::Alphanumeric,
            0b0100 => Mode::Byte,
            other => return Err(format!("unsupported mode indicator {:04b} at bit {}", other, save)),
        };
        let count = r
            .read(cci_bits(version, mode))
            .ok_or_else(|| "character count field truncated".to_string())?;
        let mut bytes = Vec::with_capacity(count);
        match mode {
            Mode::Numeric => {
                let mut left = count;
                while left > 0 {
                    let k = left.min(3);
                    let v = r.read([0, 4, 7, 10][k]).ok_or_else(|| "numeric payload truncated".to_string())?;
                    let max = [0, 9, 99, 999][k];
                    if v > max {
                        return Err(format!("numeric group value {} exceeds {}", v, max));
                    }
                    let s = format!("{:0width$}", v, width = k);
                    bytes.extend_from_slice(s.as_bytes());
                    left -= k;
                }
            }
            Mode::Alphanumeric => {
                let mut left = count;
                while left > 0 {
                    if left >= 2 {
                        let v = r.read(11).ok_or_else(|| "alphanumeric payload truncated".to_string())?;
                        if v >= 45 * 45 {
                            return Err(format!("alphanumeric pair value {} out of range", v));
                        }
                        bytes.push(ALNUM_SET[v / 45]);
                        bytes.push(ALNUM_SET[v % 45]);
                        left -= 2;
                    } else {
                        let v = r.read(6).ok_or_else(|| "alphanumeric payload truncated".to_string())?;
                        if v >= 45 {
                            return Err(format!("alphanumeric value {} out of range", v));
                        }
                        bytes.push(ALNUM_SET[v]);
                        left -= 1;
                    }
                }
            }
            Mode::Byte => {
                for _ in 0..count {
                    bytes.push(r.read(8).ok_or_else(|| "byte payload truncated".to_string())? as u8);
                }
            }
        }
        segments.push(Segment { mode, count, bytes });
    }
    let end = r.pos;
    let term = r.remaining().min(4);
    Ok(ParsedData { segments, end_of_segments: end, terminator_bits: term })
}

/// Strict check of everything after the last segment: the terminator must be min(4, remaining)
/// zero bits, then zero bits to the byte boundary, then alternating EC/11 pad codewords to the end.
pub fn check_padding(data: &[u8], end_of_segments: usize) -> Result<(), String> {
    let mut r = BitReader { data, pos: end_of_segments };
    let term = r.remaining().min(4);
    let t = r.read(term).unwrap();
    if t != 0 {
        return Err("terminator bits not zero".into());
    }
    let align = (8 - r.pos % 8) % 8;
    if align > 0 {
        let a = r.read(align).ok_or_else(|| "alignment bits truncated".to_string())?;
        if a != 0 {
            return Err("bits up to the byte boundary after the terminator are not zero".into());
        }
    }
    let mut k = 0;
    while r.remaining() >= 8 {
        let b = r.read(8).unwrap() as u8;
        let want = if k % 2 == 0 { 0xEC } else { 0x11 };
        if b != want {
            return Err(format!("pad codeword {} is {:#04x}, expected {:#04x}", k, b, want));
        }
        k += 1;
    }
    Ok(())
}

/// Strict parse of the data codewords: segments, then strict padding.
pub fn parse_data(data: &[u8], version: usize) -> Result<ParsedData, String> {
    let p = parse_segments(data, version)?;
    check_padding(data, p.end_of_segments)?;
    Ok(p)
}

#[derive(Clone, Debug)]
pub struct Decoded {
    pub read: ReadOut,
    pub blocks: Vec<(Vec<u8>, Vec<u8>)>,
    pub data: Vec<u8>,
    pub parsed: ParsedData,
}

/// Full strict decode: function patterns, format/version info, read-out, remainder bits zero,
/// de-interleave, all syndromes zero, segment parse with strict padding.
pub fn decode_strict(m: &[bool], size: usize) -> Result<Decoded, String> {
    check_function_patterns(m, size)?;
    let read = read_out(m, size)?;
    if read.remainder.len() != remainder_bits(read.version) {
        return Err("remainder bit count mismatch".into());
    }
    if read.remainder.iter().any(|&b| b) {
        return Err("remainder bits are not zero before masking".into());
    }
    let blocks = deinterleave(&read.codewords, read.version, read.level);
    let lay = layout(read.version, read.level);
    for (b, (d, e)) in blocks.iter().enumerate() {
        let mut full = d.clone();
        full.extend_from_slice(e);
        let s = gf::syndromes(&full, lay.ec);
        if let Some(i) = s.iter().position(|&x| x != 0) {
            return Err(format!("block {} of {}: syndrome S_{} = {:#04x} is not zero", b, lay.blocks, i, s[i]));
        }
    }
    let data: Vec<u8> = blocks.iter().flat_map(|(d, _)| d.iter().copied()).collect();
    let parsed = parse_data(&data, read.version)?;
    Ok(Decoded { read, blocks, data, parsed })
}

/// Decode with error correction (for the C02 corollary): no syndrome requirement on input,
/// each block is corrected with the RS decoder; returns the decoded payload segments.
pub fn decode_correcting(m: &[bool], size: usize) -> Result<(Decoded, usize), String> {
    let read = read_out(m, size)?;
    let mut blocks = deinterleave(&read.codewords, read.version, read.level);
    let lay = layout(read.version, read.level);
    let mut corrected = 0;
    for (b, (d, e)) in blocks.iter_mut().enumerate() {
        let mut full = d.clone();
        full.extend_from_slice(e);
        let k = gf::rs_correct(&mut full, lay.ec).map_err(|er| format!("block {}: {}", b, er))?;
        corrected += k;
        let dl = d.len();
        d.copy_from_slice(&full[..dl]);
        e.copy_from_slice(&full[dl..]);
    }
    let data: Vec<u8> = blocks.iter().flat_map(|(d, _)| d.iter().copied()).collect();
    let parsed = parse_data(&data, read.version)?;
    Ok((Decoded { read, blocks, data, parsed }, corrected))
}

/// The plain ISO reading procedure without strictness beyond what decoding needs: format
/// information by nearest BCH codeword (first copy, then second), version from the size, unmask,
/// read-out, de-interleave, segment parse. No error correction, no padding / remainder / function
/// pattern checks.
pub fn decode_plain(m: &[bool], size: usize) -> Result<Decoded, String> {
    let version = version_from_size(size).ok_or_else(|| format!("size {} is not 17+4v", size))?;
    if m.len() < size * size {
        return Err("matrix shorter than size*size".into());
    }
    let g = geometry(version);
    let mut found = None;
    for copy in 0..2 {
        let mut w = 0u16;
        for i in 0..15 {
            let (r, c) = g.format_pos[copy][i];
            if m[r * size + c] {
                w |= 1 << i;
            }
        }
        if let Some(x) = crate::geom::format_decode_nearest(w) {
            found = Some(x);
            break;
        }
    }
    let (lb, mask) = found.ok_or_else(|| "neither format information copy is within distance 3 of a codeword".to_string())?;
    let level = Level::from_format_bits(lb);
    let total = total_codewords(version);
    let mut codewords = vec![0u8; total];
    let mut remainder = Vec::new();
    for (k, &(r, c)) in g.order.iter().enumerate() {
        let bit = m[r * size + c] ^ mask_cond(mask, r, c);
        if k / 8 < total {
            if bit {
                codewords[k / 8] |= 1 << (7 - k % 8);
            }
        } else {
            remainder.push(bit);
        }
    }
    let read = ReadOut { version, level, mask, codewords, remainder };
    let blocks = deinterleave(&read.codewords, version, level);
    let data: Vec<u8> = blocks.iter().flat_map(|(d, _)| d.iter().copied()).collect();
    let parsed = parse_segments(&data, version)?;
    Ok(Decoded { read, blocks, data, parsed })
}

/// Region lookup helper
pub fn region_at(version: usize, r: usize, c: usize) -> Region {
    let g = geometry(version);
    g.region[r * g.size + c]
}

#[cfg(test)]
mod tests {
    use super::*;

    #[test]
    fn roundtrip_all_cells() {
        for v in 1..=40 {
            for &l in &LEVELS {
                for &mode in &MODES {
                    let cap = capacity(v, l, mode);
                    for len in [0usize, 1, cap / 2, cap.saturating_sub(1), cap] {
                        let input: Vec<u8> = (0..len)
                            .map(|i| match mode {
                                Mode::Numeric => b'0' + ((i * 7 + 3) % 10) as u8,
                                Mode::Alphanumeric => ALNUM_SET[(i * 11 + 5) % 45],
                                Mode::Byte => (i * 131 + 17) as u8,
                            })
                            .collect();
                        let mask = ((v + len) % 8) as u8;
                        let m = build_symbol(mode, &input, v, l, mask).unwrap();
                        let d = decode_strict(&m, size(v)).unwrap();
                        assert_eq!(d.read.version, v);
                        assert_eq!(d.read.level, l);
                        assert_eq!(d.read.mask, mask);
                        if len == 0 && false {
                            continue;
                        }
                        assert_eq!(d.parsed.segments.len(), 1, "v{} {:?} {:?} len {}", v, l, mode, len);
                        assert_eq!(d.parsed.segments[0].mode, mode);
                        assert_eq!(d.parsed.segments[0].bytes, input);
                    }
                    assert!(data_codewords_for(mode, &vec![b'1'; cap + 1], v, l).is_err());
                }
            }
        }
    }
}
