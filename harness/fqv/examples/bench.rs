use std::time::Instant;
fn main() {
    fqv::engine::install_panic_hook();
    let data = [0u8, 0, 0, 0, 0, b'a', b'b', b'c'];
    let cell = std::cell::RefCell::new(fqv::engine::LocalStats::default());
    for prop in ["C10", "C01", "C06", "C03"] {
        let t = Instant::now();
        for _ in 0..2000 {
            let mut o = fqv::engine::Obs::new(&cell);
            let _ = fqv::fuzzrt::eval(prop, &data, &mut o);
        }
        println!("{} {:?} per eval", prop, t.elapsed() / 2000);
    }
    let (bc, _) = fqv::fuzzdec::build_case(&data);
    let t = Instant::now();
    for _ in 0..2000 {
        let _ = fqv::fq::build(&bc);
    }
    println!("build only {:?}", t.elapsed() / 2000);
    let t = Instant::now();
    for _ in 0..2000 {
        let _ = bc.builder().build().map(|q| q.size);
    }
    println!("raw build {:?}", t.elapsed() / 2000);
}
