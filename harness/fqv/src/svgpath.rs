//! Minimal SVG path-data interpreter (M m L l H h V v A a Z z, implicit line-tos, numbers like
//! `.5`, `-.1`, `1.2.3`), enough to recover the geometry of every sub-path a shape layer draws.

#[derive(Clone, Debug)]
pub struct SubPath {
    /// outline points in drawing order (arcs are sampled)
    pub pts: Vec<(f64, f64)>,
    pub closed: bool,
    pub has_curve: bool,
}

impl SubPath {
    pub fn bbox(&self) -> (f64, f64, f64, f64) {
        let mut x0 = f64::INFINITY;
        let mut y0 = f64::INFINITY;
        let mut x1 = f64::NEG_INFINITY;
        let mut y1 = f64::NEG_INFINITY;
        for &(x, y) in &self.pts {
            x0 = x0.min(x);
            y0 = y0.min(y);
            x1 = x1.max(x);
            y1 = y1.max(y);
        }
        (x0, y0, x1, y1)
    }
    pub fn centre(&self) -> (f64, f64) {
        let (x0, y0, x1, y1) = self.bbox();
        ((x0 + x1) / 2.0, (y0 + y1) / 2.0)
    }
    /// polygon area (shoelace) of the implicitly closed outline
    pub fn area(&self) -> f64 {
        let n = self.pts.len();
        if n < 3 {
            return 0.0;
        }
        let mut a = 0.0;
        for i in 0..n {
            let (x0, y0) = self.pts[i];
            let (x1, y1) = self.pts[(i + 1) % n];
            a += x0 * y1 - x1 * y0;
        }
        a.abs() / 2.0
    }
}

struct Lexer<'a> {
    s: &'a [u8],
    i: usize,
}

impl<'a> Lexer<'a> {
    fn skip_ws(&mut self) {
        while self.i < self.s.len() && (self.s[self.i] == b' ' || self.s[self.i] == b',' || self.s[self.i] == b'\n' || self.s[self.i] == b'\t' || self.s[self.i] == b'\r') {
            self.i += 1;
        }
    }
    fn peek_cmd(&mut self) -> Option<u8> {
        self.skip_ws();
        if self.i < self.s.len() && self.s[self.i].is_ascii_alphabetic() && self.s[self.i] != b'e' && self.s[self.i] != b'E' {
            Some(self.s[self.i])
        } else {
            None
        }
    }
    fn at_end(&mut self) -> bool {
        self.skip_ws();
        self.i >= self.s.len()
    }
    fn number(&mut self) -> Result<f64, String> {
        self.skip_ws();
        let st = self.i;
        if self.i < self.s.len() && (self.s[self.i] == b'+' || self.s[self.i] == b'-') {
            self.i += 1;
        }
        let mut digits = 0;
        while self.i < self.s.len() && self.s[self.i].is_ascii_digit() {
            self.i += 1;
            digits += 1;
        }
        if self.i < self.s.len() && self.s[self.i] == b'.' {
            self.i += 1;
            while self.i < self.s.len() && self.s[self.i].is_ascii_digit() {
                self.i += 1;
                digits += 1;
            }
        }
        if digits == 0 {
            return Err(format!("expected a number at offset {} ({:?})", st, String::from_utf8_lossy(&self.s[st..(st + 12).min(self.s.len())])));
        }
        if self.i < self.s.len() && (self.s[self.i] == b'e' || self.s[self.i] == b'E') {
            let save = self.i;
            self.i += 1;
            if self.i < self.s.len() && (self.s[self.i] == b'+' || self.s[self.i] == b'-') {
                self.i += 1;
            }
            let mut ed = 0;
            while self.i < self.s.len() && self.s[self.i].is_ascii_digit() {
                self.i += 1;
                ed += 1;
            }
            if ed == 0 {
                self.i = save;
            }
        }
        std::str::from_utf8(&self.s[st..self.i]).unwrap().parse::<f64>().map_err(|e| format!("bad number at {}: {}", st, e))
    }
    fn flag(&mut self) -> Result<bool, String> {
        self.skip_ws();
        if self.i < self.s.len() && (self.s[self.i] == b'0' || self.s[self.i] == b'1') {
            self.i += 1;
            Ok(self.s[self.i - 1] == b'1')
        } else {
            Err(format!("expected an arc flag at offset {}", self.i))
        }
    }
}

/// SVG implementation notes F.6.5: endpoint -> centre parameterisation; returns sampled points
fn arc_points(x1: f64, y1: f64, mut rx: f64, mut ry: f64, phi_deg: f64, fa: bool, fs: bool, x2: f64, y2: f64) -> Vec<(f64, f64)> {
    if rx == 0.0 || ry == 0.0 || (x1 == x2 && y1 == y2) {
        return vec![(x2, y2)];
    }
    rx = rx.abs();
    ry = ry.abs();
    let phi = phi_deg.to_radians();
    let (sp, cp) = phi.sin_cos();
    let dx = (x1 - x2) / 2.0;
    let dy = (y1 - y2) / 2.0;
    let x1p = cp * dx + sp * dy;
    let y1p = -sp * dx + cp * dy;
    let lam = (x1p * x1p) / (rx * rx) + (y1p * y1p) / (ry * ry);
    if lam > 1.0 {
        let s = lam.sqrt();
        rx *= s;
        ry *= s;
    }
    let num = rx * rx * ry * ry - rx * rx * y1p * y1p - ry * ry * x1p * x1p;
    let den = rx * rx * y1p * y1p + ry * ry * x1p * x1p;
    let mut coef = if den == 0.0 { 0.0 } else { (num / den).max(0.0).sqrt() };
    if fa == fs {
        coef = -coef;
    }
    let cxp = coef * rx * y1p / ry;
    let cyp = -coef * ry * x1p / rx;
    let cx = cp * cxp - sp * cyp + (x1 + x2) / 2.0;
    let cy = sp * cxp + cp * cyp + (y1 + y2) / 2.0;
    let ang = |ux: f64, uy: f64, vx: f64, vy: f64| -> f64 {
        let dot = ux * vx + uy * vy;
        let len = (ux * ux + uy * uy).sqrt() * (vx * vx + vy * vy).sqrt();
        let mut a = (dot / len).clamp(-1.0, 1.0).acos();
        if ux * vy - uy * vx < 0.0 {
            a = -a;
        }
        a
    };
    let th1 = ang(1.0, 0.0, (x1p - cxp) / rx, (y1p - cyp) / ry);
    let mut dth = ang((x1p - cxp) / rx, (y1p - cyp) / ry, (-x1p - cxp) / rx, (-y1p - cyp) / ry);
    if !fs && dth > 0.0 {
        dth -= 2.0 * std::f64::consts::PI;
    } else if fs && dth < 0.0 {
        dth += 2.0 * std::f64::consts::PI;
    }
    let steps = 48;
    let mut out = Vec::with_capacity(steps);
    for k in 1..=steps {
        let t = th1 + dth * (k as f64) / (steps as f64);
        let (st, ct) = t.sin_cos();
        out.push((cp * rx * ct - sp * ry * st + cx, sp * rx * ct + cp * ry * st + cy));
    }
    if let Some(last) = out.last_mut() {
        *last = (x2, y2);
    }
    out
}

pub fn parse(d: &str) -> Result<Vec<SubPath>, String> {
    let mut lx = Lexer { s: d.as_bytes(), i: 0 };
    let mut subs: Vec<SubPath> = Vec::new();
    let (mut cx, mut cy) = (0.0f64, 0.0f64);
    let (mut sx, mut sy) = (0.0f64, 0.0f64);
    let mut cmd: u8 = 0;
    loop {
        if lx.at_end() {
            break;
        }
        if let Some(c) = lx.peek_cmd() {
            lx.i += 1;
            cmd = c;
            if c == b'Z' || c == b'z' {
                if let Some(s) = subs.last_mut() {
                    s.closed = true;
                }
                cx = sx;
                cy = sy;
                continue;
            }
        } else if cmd == 0 {
            return Err("path data does not start with a command".into());
        } else if cmd == b'Z' || cmd == b'z' {
            return Err(format!("numbers after a closepath at offset {}", lx.i));
        }
        match cmd {
            b'M' | b'm' => {
                let x = lx.number()?;
                let y = lx.number()?;
                if cmd == b'm' && !subs.is_empty() {
                    cx += x;
                    cy += y;
                } else if cmd == b'm' {
                    cx = x;
                    cy = y;
                } else {
                    cx = x;
                    cy = y;
                }
                sx = cx;
                sy = cy;
                subs.push(SubPath { pts: vec![(cx, cy)], closed: false, has_curve: false });
                // subsequent pairs are implicit line-tos
                cmd = if cmd == b'M' { b'L' } else { b'l' };
            }
            b'L' | b'l' => {
                let x = lx.number()?;
                let y = lx.number()?;
                if cmd == b'l' {
                    cx += x;
                    cy += y;
                } else {
                    cx = x;
                    cy = y;
                }
                subs.last_mut().ok_or("line before moveto")?.pts.push((cx, cy));
            }
            b'H' | b'h' => {
                let x = lx.number()?;
                if cmd == b'h' {
                    cx += x;
                } else {
                    cx = x;
                }
                subs.last_mut().ok_or("line before moveto")?.pts.push((cx, cy));
            }
            b'V' | b'v' => {
                let y = lx.number()?;
                if cmd == b'v' {
                    cy += y;
                } else {
                    cy = y;
                }
                subs.last_mut().ok_or("line before moveto")?.pts.push((cx, cy));
            }
            b'A' | b'a' => {
                let rx = lx.number()?;
                let ry = lx.number()?;
                let rot = lx.number()?;
                let fa = lx.flag()?;
                let fs = lx.flag()?;
                let x = lx.number()?;
                let y = lx.number()?;
                let (nx, ny) = if cmd == b'a' { (cx + x, cy + y) } else { (x, y) };
                let pts = arc_points(cx, cy, rx, ry, rot, fa, fs, nx, ny);
                let s = subs.last_mut().ok_or("arc before moveto")?;
                s.pts.extend(pts);
                s.has_curve = true;
                cx = nx;
                cy = ny;
            }
            other => return Err(format!("unsupported path command {:?}", other as char)),
        }
    }
    Ok(subs)
}

#[cfg(test)]
mod tests {
    use super::*;
    #[test]
    fn builtin_like_shapes() {
        let p = parse("M4,5h1v1h-1M10.2,3.2 10.8,3.2 10.8,3.8 10.2,3.8zM7.5,2l.5,.5l-.5,.5l-.5,-.5zM3,9.5a.5,.5 0 1,1 0,-.1").unwrap();
        assert_eq!(p.len(), 4);
        let c: Vec<(i64, i64)> = p.iter().map(|s| { let (x, y) = s.centre(); (x.floor() as i64, y.floor() as i64) }).collect();
        assert_eq!(c, vec![(4, 5), (10, 3), (7, 2), (2, 9)]);
        assert!((p[0].area() - 1.0).abs() < 1e-9);
        assert!((p[2].area() - 0.5).abs() < 1e-9);
        let (x0, _, x1, _) = p[3].bbox();
        assert!((x1 - x0 - 1.0).abs() < 0.02);
        assert!((p[3].area() - std::f64::consts::PI / 4.0).abs() < 0.03);
    }
}
