//! Shared proptest strategies: cells, lengths, payload families, option sets.

use crate::fq::{BuildCase, Opts};
use proptest::collection::vec;
use proptest::prelude::*;
use refmodel::tables::*;

#[derive(Clone, Copy, Debug, PartialEq, Eq, Hash)]
pub struct Cell {
    pub version: usize,
    pub level: Level,
    pub mode: Mode,
}

impl Cell {
    pub fn cap(&self) -> usize {
        capacity(self.version, self.level, self.mode)
    }
    /// smallest length for which this version is the minimal one
    pub fn lo(&self) -> usize {
        if self.version == 1 {
            0
        } else {
            capacity(self.version - 1, self.level, self.mode) + 1
        }
    }
    pub fn index(&self) -> usize {
        ((self.version - 1) * 4 + self.level as usize) * 3 + self.mode as usize
    }
    pub fn from_index(i: usize) -> Cell {
        Cell { version: i / 12 + 1, level: Level::from_index((i / 3) % 4), mode: Mode::from_index(i % 3) }
    }
}

pub fn all_cells() -> Vec<Cell> {
    (0..480).map(Cell::from_index).collect()
}

/// monotone index mapping (shrinks towards 0)
pub fn pick(sel: u16, n: usize) -> usize {
    if n == 0 {
        0
    } else {
        ((sel as usize) * n) >> 16
    }
}

const NON_DIGIT_ALNUM: &[u8] = b"ABCDEFGHIJKLMNOPQRSTUVWXYZ $%*+-./:";

/// Payload of exactly `len` characters belonging to the class `mode`.
/// If `strict_class` the payload is constructed so that the reference classifier returns exactly
/// `mode` (needed when the mode is chosen automatically); otherwise it only lies inside the alphabet.
pub fn payload(mode: Mode, len: usize, strict_class: bool) -> BoxedStrategy<(Vec<u8>, &'static str)> {
    let base: BoxedStrategy<(Vec<u8>, &'static str)> = match mode {
        Mode::Numeric => prop_oneof![
            6 => vec(b'0'..=b'9', len).prop_map(|v| (v, "num_uniform")),
            1 => Just((vec![b'0'; len], "num_all0")),
            1 => Just((vec![b'9'; len], "num_all9")),
            1 => vec(b'0'..=b'9', len).prop_map(|mut v| {
                for (i, d) in v.iter_mut().enumerate() {
                    if i % 3 != 2 {
                        *d = b'0';
                    }
                }
                (v, "num_leading_zero_groups")
            }),
            1 => vec(prop_oneof![Just(b'0'), Just(b'1'), Just(b'9')], len).prop_map(|v| (v, "num_019")),
        ]
        .boxed(),
        Mode::Alphanumeric => prop_oneof![
            6 => vec(0usize..45, len).prop_map(|v| (v.into_iter().map(|i| ALNUM_SET[i]).collect(), "alnum_uniform")),
            1 => Just((vec![b':'; len], "alnum_all_colon")),
            1 => Just((vec![b'0'; len], "alnum_all0")),
            1 => vec(b'0'..=b'9', len).prop_map(|v| (v, "alnum_digits")),
            1 => vec(prop_oneof![Just(b':'), Just(b'0'), Just(b'Z'), Just(b' ')], len).prop_map(|v| (v, "alnum_extremes")),
            1 => vec(36usize..45, len).prop_map(|v| (v.into_iter().map(|i| ALNUM_SET[i]).collect(), "alnum_symbols")),
        ]
        .boxed(),
        Mode::Byte => prop_oneof![
            6 => vec(any::<u8>(), len).prop_map(|v| (v, "byte_uniform")),
            1 => Just((vec![0u8; len], "byte_all00")),
            1 => Just((vec![0xFFu8; len], "byte_allFF")),
            1 => Just(((0..len).map(|i| if i % 2 == 0 { 0xEC } else { 0x11 }).collect(), "byte_pad_lookalike")),
            1 => vec(prop_oneof![Just(0x10u8), Just(0x20), Just(0x40), Just(0x41), Just(0x14), Just(0x00), Just(0x0F)], len)
                .prop_map(|v| (v, "byte_mode_indicator_nibbles")),
            1 => vec(prop_oneof![32u8..127, 0xC3u8..=0xC3, 0x80u8..0xC0], len).prop_map(|v| (v, "byte_textish")),
            1 => vec(b'a'..=b'z', len).prop_map(|v| (v, "byte_lowercase")),
            // periodic content: the whole symbol becomes a regular texture (thousands of identical runs / windows)
            1 => any::<u8>().prop_map(move |b| (vec![b; len], "byte_constant")),
            1 => (vec(any::<u8>(), 1..5), any::<u8>()).prop_map(move |(unit, _)| ((0..len).map(|i| unit[i % unit.len()]).collect(), "byte_periodic")),
            // well-formed UTF-8 text of exactly `len` bytes (what users outside ASCII pass): accented Latin, Greek,
            // Cyrillic, CJK, emoji in several mixes
            2 => utf8_text(len).prop_map(|v| (v, "byte_utf8_text")),
            // ordinary content with one special token (byte-order mark, line end, NUL, URI scheme, escape, ...)
            2 => with_token(prop_oneof![vec(b'a'..=b'z', len), vec(b'0'..=b'9', len), vec(0usize..45, len).prop_map(|v| v.into_iter().map(|i| ALNUM_SET[i]).collect()), utf8_text(len)].boxed()).prop_map(|v| (v, "byte_with_token")),
            // runs of one character class each (digits / 45-set / other) with lengths at chunk sizes
            1 => class_runs_of(len).prop_map(|v| (v, "byte_class_runs")),
            // narrower classes: only stay as they are when the mode is forced (strict_class re-classes them)
            1 => vec(b'0'..=b'9', len).prop_map(|v| (v, "byte_digits_only")),
            1 => vec(0usize..45, len).prop_map(|v| (v.into_iter().map(|i| ALNUM_SET[i]).collect(), "byte_alnum_only")),
        ]
        .boxed(),
    };
    if !strict_class || len == 0 {
        return base;
    }
    match mode {
        Mode::Numeric => base,
        Mode::Alphanumeric => (base, any::<u16>(), any::<u16>())
            .prop_map(move |((mut v, fam), pos, which)| {
                if classify(&v) != Mode::Alphanumeric {
                    let p = pick(pos, v.len());
                    v[p] = NON_DIGIT_ALNUM[pick(which, NON_DIGIT_ALNUM.len())];
                }
                (v, fam)
            })
            .boxed(),
        Mode::Byte => (base, any::<u16>(), any::<u8>())
            .prop_map(move |((mut v, fam), pos, which)| {
                if classify(&v) != Mode::Byte {
                    let p = pick(pos, v.len());
                    // a byte outside the 45-character set
                    let mut b = which;
                    while alnum_value(b).is_some() {
                        b = b.wrapping_add(0x61);
                    }
                    v[p] = b;
                }
                (v, fam)
            })
            .boxed(),
    }
}

/// Byte sequences that software tends to treat specially: byte-order marks, line ends, NUL, escape and separator
/// controls, AIM / ECI look-alikes, URI schemes, percent / entity escapes, number look-alikes, invisible and
/// ill-formed UTF-8. Payload generators place one at the start, the end or inside otherwise ordinary content.
pub const TOKENS: &[&[u8]] = &[
    b"\xEF\xBB\xBF", b"\xFF\xFE", b"\xFE\xFF", b"\x00", b"\r\n", b"\n", b"\t", b"\x1b[0m", b"\x1d", b"\x1e", b"\x04", b"\x7f",
    b"]Q1", b"]Q3", b"\\000026", b"http://", b"https://", b"HTTP://", b"www.", b"mailto:", b"tel:", b"WIFI:", b"BEGIN:VCARD", b"data:",
    b"%00", b"%EF%BB%BF", b"&amp;", b"&#x", b"<", b">", b"\"", b"'", b"\\", b"0x", b"+", b"-", b".", b" ", b"1e9", b"NaN", b"null",
    b"\xC2\xA0", b"\xE2\x80\x8B", b"\xE2\x80\x8F", b"\xE2\x80\xA8", b"\xF0\x9F\x98\x80", b"\x80", b"\xC0\x80", b"\xED\xA0\x80", b"\xF4\x90\x80\x80", b"\xFF",
];

/// `base` with one token written over its start (half of the cases), its end, or a generated position (same length).
pub fn with_token(base: BoxedStrategy<Vec<u8>>) -> BoxedStrategy<Vec<u8>> {
    (base, 0usize..TOKENS.len(), 0usize..4, any::<u16>())
        .prop_map(|(mut v, t, place, pos)| {
            let tok = TOKENS[t];
            let k = tok.len().min(v.len());
            let at = match place {
                0 | 1 => 0,
                2 => v.len() - k,
                _ => pick(pos, v.len() - k + 1),
            };
            v[at..at + k].copy_from_slice(&tok[..k]);
            v
        })
        .boxed()
}

/// Well-formed UTF-8 text of exactly `len` bytes. The script mix is drawn per text: ASCII with accented Latin-1
/// letters (U+00A0..U+00FF), Latin-1 letters only, Latin Extended / Greek / Cyrillic (two-byte), CJK (three-byte),
/// emoji (four-byte), or everything mixed; the tail is filled with ASCII when the next character does not fit.
pub fn utf8_text(len: usize) -> BoxedStrategy<Vec<u8>> {
    (0usize..6, vec(any::<u16>(), len.min(4000))).prop_map(move |(mix, sels)| {
        let mut out: Vec<u8> = Vec::with_capacity(len);
        let mut it = sels.into_iter().chain(std::iter::repeat(0x1234u16));
        while out.len() < len {
            let s = it.next().unwrap() as u32;
            let k = s >> 3;
            let ch: char = match (mix, s % 8) {
                (0, 0..=4) | (5, 0) => (b'a' + (k % 26) as u8) as char,
                (0, _) | (1, _) | (5, 1) => char::from_u32(0xA0 + k % 0x60).unwrap(),
                (2, 0..=2) | (5, 2) => char::from_u32(0x100 + k % 0x80).unwrap(),
                (2, 3..=5) | (5, 3) => char::from_u32(0x391 + k % 0x39).filter(|c| *c != '\u{3a2}').unwrap_or('Ω'),
                (2, _) | (5, 4) => char::from_u32(0x410 + k % 0x40).unwrap(),
                (3, 0) => ' ',
                (3, _) | (5, 5) => char::from_u32(0x4E00 + k % 0x1000).unwrap(),
                (4, 0..=2) => (b'A' + (k % 26) as u8) as char,
                (4, _) | (5, _) => char::from_u32(0x1F600 + k % 0x40).unwrap(),
                _ => 'x',
            };
            let mut buf = [0u8; 4];
            let e = ch.encode_utf8(&mut buf).as_bytes();
            if out.len() + e.len() <= len {
                out.extend_from_slice(e);
            } else {
                out.push(b'a' + (k % 26) as u8);
            }
        }
        out
    })
    .boxed()
}

/// Exactly `len` bytes made of runs of one character class each (digits, the 45-set, other bytes); run lengths 1..9,
/// 2^k-1 / 2^k / 2^k+1 (k = 2..12) or generated; constant or varied content per run.
pub fn class_runs_of(len: usize) -> BoxedStrategy<Vec<u8>> {
    let run = (0usize..3, prop_oneof![3 => 1usize..10, 5 => (2u32..=12, 0usize..3).prop_map(|(k, d)| (1usize << k) + d - 1), 2 => 10usize..700], any::<bool>(), any::<u8>());
    (vec(run, 1..6), vec(any::<u8>(), len.min(64))).prop_map(move |(runs, noise)| {
        let mut out = Vec::with_capacity(len);
        let mut i = 0usize;
        while out.len() < len {
            let (class, rl, constant, seed) = runs[i % runs.len()];
            i += 1;
            for j in 0..rl {
                if out.len() >= len {
                    break;
                }
                let x = if constant { seed } else { seed.wrapping_add(noise[(out.len() + j) % noise.len().max(1)]).wrapping_mul(31) };
                out.push(match class {
                    0 => b'0' + x % 10,
                    1 => ALNUM_SET[10 + (x as usize) % 35],
                    _ => {
                        let mut b = x;
                        while alnum_value(b).is_some() {
                            b = b.wrapping_add(0x61);
                        }
                        b
                    }
                });
            }
        }
        out
    })
    .boxed()
}

/// Lengths for a cell. With an automatic version the length must lie in [lo, cap] for the build to
/// land in this cell; with a forced version anything in [0, cap] is allowed.
pub fn length(cell: Cell, forced_version: bool, min_len: usize) -> BoxedStrategy<usize> {
    let cap = cell.cap();
    let lo = if forced_version { 0 } else { cell.lo() };
    let lo = lo.max(min_len).min(cap);
    let clamp = move |x: usize| x.max(lo).min(cap);
    let near = cap.saturating_sub(9).max(lo);
    // lengths whose segment ends at (or within a few bits of) the start of a data block: the place where a
    // terminator / pad codeword / block split interaction would show (mostly reachable with a forced version)
    let lay = layout(cell.version, cell.level);
    let boundary = (1usize..lay.blocks.max(2), -3i64..=3).prop_map(move |(b, d)| {
        let b = b.min(lay.blocks.saturating_sub(1));
        let mut off = 0usize;
        for k in 0..b {
            off += lay.data_len(k);
        }
        let target_bits = (8 * off) as i64;
        let header = (4 + cci_bits(cell.version, cell.mode)) as i64;
        // largest len with header + payload_bits(len) <= target, then shifted by d characters
        let per = match cell.mode { Mode::Numeric => 10.0 / 3.0, Mode::Alphanumeric => 5.5, Mode::Byte => 8.0 };
        let mut len = (((target_bits - header).max(0)) as f64 / per) as usize;
        while header + payload_bits(cell.mode, len + 1) as i64 <= target_bits {
            len += 1;
        }
        while len > 0 && header + payload_bits(cell.mode, len) as i64 > target_bits {
            len -= 1;
        }
        clamp((len as i64 + d).max(0) as usize)
    });
    prop_oneof![
        3 => boundary,
        3 => Just(cap),
        2 => Just(clamp(cap.saturating_sub(1))),
        1 => Just(clamp(cap.saturating_sub(2))),
        2 => Just(lo),
        1 => Just(clamp(lo + 1)),
        1 => Just(clamp((lo + cap) / 2)),
        3 => (near..=cap),
        3 => (lo..=cap),
        1 => (lo..=clamp(lo + 8)),
    ]
    .boxed()
}

#[derive(Clone, Copy, Debug)]
pub struct Force {
    pub mode: bool,
    pub level: bool,
    pub version: bool,
}

/// A build that lands in `cell`: options forced per `force` (level can only be left automatic in a Q
/// cell), mask as given. Returns the case and the payload family label.
pub fn case_in_cell(cell: Cell, force: Force, mask: Option<u8>) -> BoxedStrategy<(BuildCase, &'static str)> {
    let force_level = force.level || cell.level != Level::Q;
    // with automatic mode the empty input is Numeric, so other classes need >= 1 character
    let min_len = if !force.mode && cell.mode != Mode::Numeric { 1 } else { 0 };
    if cell.cap() < min_len {
        // cannot happen for real cells (every cell holds >= 1 character)
        unreachable!();
    }
    let opts = Opts {
        mode: if force.mode { Some(cell.mode) } else { None },
        level: if force_level { Some(cell.level) } else { None },
        version: if force.version { Some(cell.version) } else { None },
        mask,
    };
    any::<u16>()
        .prop_flat_map(move |warm_sel| {
            // one case in four reuses a builder that has already been built with other option values
            let proto = BuildCase::new(Vec::new(), opts.clone()).with_warm_sel(warm_sel);
            // when the warm-up build uses the same forced version at a level with LESS capacity, half of the lengths are
            // drawn at that level's boundaries (0..3 spare bits in the first build is where a stale bit stream differs)
            let warm_cell = match (&proto.warm, force.version) {
                (Some(w), true) if w.version == Some(cell.version) => w.level.filter(|l| *l != cell.level).map(|l| Cell { version: cell.version, level: l, mode: cell.mode }).filter(|wc| wc.cap() <= cell.cap()),
                _ => None,
            };
            let len = match warm_cell {
                Some(wc) => prop_oneof![length(cell, true, min_len), length(wc, true, min_len)].boxed(),
                None => length(cell, force.version, min_len),
            };
            let warm = proto.warm.clone();
            let resend = proto.resend;
            let pred = proto.pred;
            let opts = opts.clone();
            len.prop_flat_map(move |len| payload(cell.mode, len, !force.mode)).prop_map(move |(input, fam)| {
                let mut bc = BuildCase::new(input, opts.clone());
                bc.warm = warm.clone();
                bc.resend = resend;
                bc.pred = pred;
                (bc, fam)
            })
        })
        .boxed()
}

pub fn any_cell() -> impl Strategy<Value = Cell> {
    // version weighted: small versions shrink target; uniform over all 480 cells with extra weight on small ones
    prop_oneof![
        3 => (0usize..480).prop_map(Cell::from_index),
        1 => (0usize..72).prop_map(Cell::from_index),
    ]
}

pub fn any_force() -> impl Strategy<Value = Force> {
    (any::<bool>(), any::<bool>(), any::<bool>()).prop_map(|(mode, level, version)| Force { mode, level, version })
}

pub fn any_mask() -> impl Strategy<Value = Option<u8>> {
    prop_oneof![1 => Just(None), 2 => (0u8..8).prop_map(Some)]
}

/// Fully random valid build: random cell, options, boundary-biased length, payload family
pub fn any_case() -> BoxedStrategy<(BuildCase, &'static str, Cell)> {
    (any_cell(), any_force(), any_mask())
        .prop_flat_map(|(cell, force, mask)| case_in_cell(cell, force, mask).prop_map(move |(c, f)| (c, f, cell)))
        .boxed()
}

pub fn version_band(v: usize) -> &'static str {
    if v <= 9 {
        "v1-9"
    } else if v <= 26 {
        "v10-26"
    } else {
        "v27-40"
    }
}

// ------------------------------------------------------------------------------------------------------------
// Matrix steering: payloads crafted (through the public builder, Byte mode, full capacity) so that chosen modules
// of the FINISHED symbol take chosen values. Data codewords are free bits of the payload; the reference placement
// map says which payload bit lands on which module, and the forced mask is compensated. EC codewords, remainder
// bits and the few header/terminator bits cannot be steered and are left alone. The result is an ordinary input
// of the builder (inside every property's domain) whose matrix has long runs, isolated modules at word-size
// boundaries, finder look-alikes at the edges, uniform rectangles — content a uniform payload reaches with
// probability 2^-k.

#[derive(Clone, Debug)]
pub enum SteerItem {
    /// whole row (or column) set to `base`, except the listed positions
    Line { vertical: bool, index: usize, base: bool, exceptions: Vec<usize>, pair: bool },
    /// run-length pattern starting at `start`: runs alternate beginning with `first`
    Runs { vertical: bool, index: usize, start: usize, first: bool, runs: Vec<usize> },
    /// 0000 1011101 0000 look-alike
    Finder { vertical: bool, index: usize, start: usize },
    /// uniform rectangle
    Rect { r0: usize, c0: usize, h: usize, w: usize, val: bool },
    /// word-boundary pattern repeated over `lines` consecutive lines: short runs (`pre`, the last one ending at
    /// `boundary - 1`) followed by a long uniform run of `post` modules starting exactly at `boundary`
    Boundary { vertical: bool, index: usize, lines: usize, boundary: usize, pre: Vec<usize>, post: usize, first: bool },
    /// machine-word edge patterns on `lines` consecutive lines: the word [k*word, (k+1)*word) holds `val` everywhere except
    /// its LAST (or FIRST) position, which holds the opposite, and the position just beyond it holds `val` again - what
    /// trailing_zeros / leading_zeros based scanners see as "skip word - 1"
    WordEdge { vertical: bool, index: usize, lines: usize, word: usize, k: usize, at_end: bool, val: bool },
    /// the whole symbol as one texture: kind 0..=7 the ISO mask pattern of that number, 8 uniform, 9 2x2 blocks in
    /// chequerboard arrangement, 10 vertical stripes of width 5, 11 the 1011101 finder ratio repeated along every row;
    /// `invert` flips it. A uniform texture steered under mask m makes candidate m a flat symbol (the extreme of penalty
    /// rules 1, 2 and 4); texture k steered under m makes the candidate of another mask flat or finder-like everywhere.
    Fill { kind: u8, invert: bool },
}

pub fn fill_value(kind: u8, r: usize, c: usize) -> bool {
    match kind {
        0..=7 => refmodel::geom::mask_cond(kind, r, c),
        8 => true,
        9 => (r / 2 + c / 2) % 2 == 0,
        10 => (c / 5) % 2 == 0,
        _ => [true, false, true, true, true, false, true, false, false, false, false][c % 11],
    }
}

fn edge_index(n: usize) -> BoxedStrategy<usize> {
    prop_oneof![
        3 => Just(n - 1),
        1 => Just(n - 2),
        1 => Just(n - 3),
        1 => Just(0usize),
        1 => Just(7usize),
        1 => Just(8usize),
        1 => Just(9usize),
        1 => Just(5usize),
        3 => 0usize..n,
    ]
    .boxed()
}

fn word_pos(n: usize) -> BoxedStrategy<usize> {
    prop_oneof![
        3 => (0usize..=(n / 8), 0usize..3).prop_map(move |(k, d)| (8 * k + d).saturating_sub(1).min(n - 1)),
        2 => (0usize..=(n / 32), 0usize..3).prop_map(move |(k, d)| (32 * k + d).saturating_sub(1).min(n - 1)),
        1 => (0usize..=(n / 16), 0usize..3).prop_map(move |(k, d)| (16 * k + d).saturating_sub(1).min(n - 1)),
        1 => Just(n - 1),
        2 => 0usize..n,
    ]
    .boxed()
}

fn run_len() -> BoxedStrategy<usize> {
    prop_oneof![
        4 => 1usize..=8,
        1 => Just(15usize), 1 => Just(16usize), 1 => Just(17usize),
        1 => Just(31usize), 1 => Just(32usize), 1 => Just(33usize),
        1 => Just(63usize), 1 => Just(64usize), 1 => Just(65usize),
        1 => 1usize..=177,
    ]
    .boxed()
}

pub fn steer_item(n: usize) -> BoxedStrategy<SteerItem> {
    prop_oneof![
        4 => (any::<bool>(), edge_index(n), any::<bool>(), vec(word_pos(n), 0..4), any::<bool>())
            .prop_map(|(vertical, index, base, exceptions, pair)| SteerItem::Line { vertical, index, base, exceptions, pair }),
        3 => (any::<bool>(), edge_index(n), word_pos(n), any::<bool>(), vec(run_len(), 1..8))
            .prop_map(|(vertical, index, start, first, runs)| SteerItem::Runs { vertical, index, start, first, runs }),
        1 => (any::<bool>(), edge_index(n), word_pos(n)).prop_map(|(vertical, index, start)| SteerItem::Finder { vertical, index, start }),
        2 => (edge_index(n), word_pos(n), 1usize..6, 1usize..40, any::<bool>()).prop_map(|(r0, c0, h, w, val)| SteerItem::Rect { r0, c0, h, w, val }),
        2 => (any::<bool>(), 9usize..n.max(10), 1usize..12, prop_oneof![Just(8usize), Just(16), Just(32), Just(64)], 0usize..6, any::<bool>(), any::<bool>())
            .prop_map(|(vertical, index, lines, word, k, at_end, val)| SteerItem::WordEdge { vertical, index, lines, word, k, at_end, val }),
        3 => (any::<bool>(), 9usize..n.max(10), 1usize..24, prop_oneof![Just(8usize), Just(16), Just(32), Just(64), Just(96), Just(128)], vec(1usize..=8, 1..4),
              prop_oneof![Just(15usize), Just(16), Just(31), Just(32), Just(33), Just(63), Just(64), Just(65), Just(100)], any::<bool>())
            .prop_map(|(vertical, index, lines, boundary, pre, post, first)| SteerItem::Boundary { vertical, index, lines, boundary, pre, post, first }),
    ]
    .boxed()
}

pub fn steer_constraints(n: usize, items: &[SteerItem]) -> Vec<(usize, usize, bool)> {
    let mut out = Vec::new();
    let mut put = |vertical: bool, index: usize, pos: usize, val: bool| {
        if index < n && pos < n {
            out.push(if vertical { (pos, index, val) } else { (index, pos, val) });
        }
    };
    for it in items {
        match it {
            SteerItem::Line { vertical, index, base, exceptions, pair } => {
                for k in 0..(if *pair { 2 } else { 1 }) {
                    for p in 0..n {
                        put(*vertical, index + k, p, *base != (k == 0 && exceptions.contains(&p)));
                    }
                }
            }
            SteerItem::Runs { vertical, index, start, first, runs } => {
                let mut p = *start;
                let mut v = *first;
                for &r in runs {
                    for _ in 0..r {
                        put(*vertical, *index, p, v);
                        p += 1;
                    }
                    v = !v;
                }
            }
            SteerItem::Finder { vertical, index, start } => {
                const PAT: [bool; 15] = [false, false, false, false, true, false, true, true, true, false, true, false, false, false, false];
                for (k, &v) in PAT.iter().enumerate() {
                    put(*vertical, *index, start + k, v);
                }
            }
            SteerItem::Boundary { vertical, index, lines, boundary, pre, post, first } => {
                let total: usize = pre.iter().sum();
                if *boundary >= total {
                    for l in 0..*lines {
                        let mut p = boundary - total;
                        let mut v = *first;
                        for &r in pre.iter() {
                            for _ in 0..r {
                                put(*vertical, index + l, p, v);
                                p += 1;
                            }
                            v = !v;
                        }
                        for _ in 0..*post {
                            put(*vertical, index + l, p, v);
                            p += 1;
                        }
                    }
                }
            }
            SteerItem::WordEdge { vertical, index, lines, word, k, at_end, val } => {
                let lo = k * word;
                for l in 0..*lines {
                    for p in lo..lo + word {
                        let edge = if *at_end { p == lo + word - 1 } else { p == lo };
                        put(*vertical, index + l, p, *val != edge);
                    }
                    // the neighbour beyond the odd position
                    if *at_end {
                        put(*vertical, index + l, lo + word, *val);
                    } else if lo > 0 {
                        put(*vertical, index + l, lo - 1, *val);
                    }
                }
            }
            SteerItem::Fill { kind, invert } => {
                for r in 0..n {
                    for c in 0..n {
                        put(false, r, c, fill_value(*kind, r, c) != *invert);
                    }
                }
            }
            SteerItem::Rect { r0, c0, h, w, val } => {
                for r in *r0..(*r0 + *h).min(n) {
                    for c in *c0..(*c0 + *w).min(n) {
                        put(false, r, c, *val);
                    }
                }
            }
        }
    }
    out
}

/// Craft the Byte payload (full capacity of the cell) so that the constrained modules take their values under
/// `mask`. Returns the payload and how many constraints could be applied (landed on a payload bit).
pub fn steer_payload(version: usize, level: Level, mask: u8, constraints: &[(usize, usize, bool)], filler: &[u8]) -> (Vec<u8>, usize) {
    use refmodel::codec::interleave_map;
    use refmodel::geom::{geometry, mask_cond};
    let g = geometry(version);
    let n = g.size;
    let cap = capacity(version, level, Mode::Byte);
    let header = 4 + cci_bits(version, Mode::Byte);
    let mut payload: Vec<u8> = (0..cap).map(|i| filler.get(i).copied().unwrap_or((i * 73 + 11) as u8)).collect();
    let mut k_of = vec![usize::MAX; n * n];
    for (k, &(r, c)) in g.order.iter().enumerate() {
        k_of[r * n + c] = k;
    }
    let imap = interleave_map(version, level);
    let lay = layout(version, level);
    let mut off = vec![0usize; lay.blocks + 1];
    for b in 0..lay.blocks {
        off[b + 1] = off[b] + lay.data_len(b);
    }
    let mut applied = 0;
    for &(r, c, val) in constraints {
        let k = k_of[r * n + c];
        if k == usize::MAX || k / 8 >= imap.len() {
            continue;
        }
        let (b, is_ec, idx) = imap[k / 8];
        if is_ec {
            continue;
        }
        let p = 8 * (off[b] + idx) + k % 8;
        if p < header || p >= header + 8 * cap {
            continue;
        }
        let pp = p - header;
        let want = val ^ mask_cond(mask, r, c);
        let bit = 7 - pp % 8;
        if want {
            payload[pp / 8] |= 1 << bit;
        } else {
            payload[pp / 8] &= !(1 << bit);
        }
        applied += 1;
    }
    (payload, applied)
}

/// A steered build: version/level/mask forced (mask optionally left automatic: the pattern then shows in the
/// candidate of `mask`), Byte mode, payload crafted from 1..4 steering items.
pub fn steered_case(vmin: usize, vmax: usize, force_mask: bool) -> BoxedStrategy<(BuildCase, &'static str)> {
    (vmin..=vmax, 0usize..4, 0u8..8)
        .prop_flat_map(move |(v, li, mask)| {
            let level = Level::from_index(li);
            let n = size(v);
            let cap = capacity(v, level, Mode::Byte);
            (vec(steer_item(n), 1..4), vec(any::<u8>(), cap.min(64)), any::<u8>(), prop_oneof![5 => Just(None), 1 => (0u8..12, any::<bool>()).prop_map(Some)]).prop_map(move |(mut items, seedbytes, stride, fill)| {
                if let Some((kind, invert)) = fill {
                    items.insert(0, SteerItem::Fill { kind, invert });
                }
                let filler: Vec<u8> = (0..cap).map(|i| seedbytes[i % seedbytes.len().max(1)].wrapping_add((i / 64) as u8).wrapping_mul(stride | 1)).collect();
                let cons = steer_constraints(n, &items);
                let (payload, _applied) = steer_payload(v, level, mask, &cons, &filler);
                (
                    BuildCase::new(payload, Opts { mode: Some(Mode::Byte), level: Some(level), version: Some(v), mask: if force_mask { Some(mask) } else { None } }),
                    "steered",
                )
            })
        })
        .boxed()
}

/// Enumerated extreme textures: for the listed versions x 4 levels x 12 textures x 2 polarities a Byte payload of full
/// capacity steered (under a mask derived from the cell) so that the whole data area shows the texture; mask forced
/// or automatic alternating. These are the symbols with the largest penalty terms a version can produce.
pub fn extreme_textures(quick: bool) -> Vec<BuildCase> {
    let versions: Vec<usize> = if quick { vec![1, 2, 6, 7, 10, 21, 27, 35, 39, 40] } else { (1..=40).collect() };
    let mut out = Vec::new();
    for &v in &versions {
        for li in 0..4 {
            let level = Level::from_index(li);
            let n = size(v);
            for kind in 0u8..12 {
                for invert in [false, true] {
                    if quick && v >= 21 && li >= 2 && (kind as usize + v + li) % 3 != 0 {
                        continue;
                    }
                    let mask = ((v + li * 3 + kind as usize * 5 + invert as usize) % 8) as u8;
                    let cons = steer_constraints(n, &[SteerItem::Fill { kind, invert }]);
                    let (payload, _) = steer_payload(v, level, mask, &cons, &[]);
                    let auto = (v + kind as usize + invert as usize) % 2 == 0;
                    out.push(BuildCase::new(payload, Opts { mode: Some(Mode::Byte), level: Some(level), version: Some(v), mask: if auto { None } else { Some(mask) } }));
                }
            }
        }
    }
    out
}

// ------------------------------------------------------------------------------------------------------------
// Codeword steering: Byte payloads of full capacity crafted so that chosen DATA CODEWORDS (hence whole data blocks)
// take chosen values - the payload bytes sit 4 + count-width bits into the stream, so every codeword after the
// header is two payload nibbles. Blocks that look like padding (EC 11 ... with or without one deviating byte at an
// end), all-zero blocks, copies of the previous block and multiples of the generator polynomial (all-zero remainder)
// are contents a per-block short cut, cache or filter would treat specially.

#[derive(Clone, Copy, Debug)]
pub enum BlockKind {
    Random,
    Zero,
    /// EC 11 EC 11 ... starting with EC (phase 0) or 11 (phase 1); deviation: 0 none, 1 last byte, 2 first byte, 3 middle
    Pad { phase: u8, deviation: u8 },
    CopyOfPrevious,
    /// q(x) * g(x): the Reed-Solomon remainder of the block is all zero
    GeneratorMultiple,
    /// one repeated byte
    Constant(u8),
    /// the previous block again except for ONE byte (at a generated position): 0 complemented, 1 set to 00, 2 set to FF,
    /// 3 incremented - two neighbouring blocks that agree up to a point and then differ by a chosen pair of values;
    /// 4.. TWO neighbouring bytes changed so that weak digests agree: 4 transposed, 5 both XORed with one value,
    /// 6..10 (+1, -m) for m in 1, 31, 33, 37, 131 (sum / h*m+byte folds) - see `block_payload`
    NearCopy { at: u16, how: u8 },
    /// a prefix (length a multiple of 4, 2 or 1 by `align`) followed by the first `take` bytes of the Reed-Solomon
    /// remainder OF THAT PREFIX, then generated bytes: the running remainder's leading coefficients cancel against the
    /// incoming data exactly there (a systematic code word, truncated)
    PrefixPlusRemainder { prefix: u16, align: u8, take: u8 },
}

pub fn block_kind() -> BoxedStrategy<BlockKind> {
    prop_oneof![
        4 => Just(BlockKind::Random),
        1 => Just(BlockKind::Zero),
        4 => (0u8..2, 0u8..4).prop_map(|(phase, deviation)| BlockKind::Pad { phase, deviation }),
        1 => Just(BlockKind::CopyOfPrevious),
        2 => Just(BlockKind::GeneratorMultiple),
        1 => prop_oneof![2 => any::<u8>(), 1 => Just(0xFFu8), 1 => Just(0x01u8), 1 => Just(0x80u8)].prop_map(BlockKind::Constant),
        3 => (any::<u16>(), prop_oneof![4 => 0u8..4, 5 => 4u8..11]).prop_map(|(at, how)| BlockKind::NearCopy { at, how }),
        3 => (any::<u16>(), 0u8..3, prop_oneof![Just(1u8), Just(2), Just(3), Just(4), Just(8), Just(255)]).prop_map(|(prefix, align, take)| BlockKind::PrefixPlusRemainder { prefix, align, take }),
    ]
    .boxed()
}

/// Payload (Byte mode, full capacity of the cell) whose data blocks have the given kinds (cyclically); `noise` feeds
/// the random parts. Codewords overlapping the header or the end of the payload keep whatever the stream gives them.
pub fn block_payload(version: usize, level: Level, kinds: &[BlockKind], noise: &[u8]) -> Vec<u8> {
    let lay = layout(version, level);
    let cap = capacity(version, level, Mode::Byte);
    let header = 4 + cci_bits(version, Mode::Byte);
    let total_data = data_codewords(version, level);
    let mut d = vec![0u8; total_data];
    let mut nz = 0usize;
    let mut next = |k: usize| -> u8 {
        nz += 1;
        noise[(nz * 7 + k) % noise.len().max(1)].wrapping_add((nz / 251) as u8).wrapping_mul(((k as u8) << 1) | 1)
    };
    let g = refmodel::gf::generator(lay.ec);
    let mut off = 0usize;
    for b in 0..lay.blocks {
        let len = lay.data_len(b);
        let kind = kinds[b % kinds.len().max(1)];
        let block: Vec<u8> = match kind {
            BlockKind::Random => (0..len).map(|i| next(i + b)).collect(),
            BlockKind::Zero => vec![0; len],
            BlockKind::Constant(x) => vec![x; len],
            BlockKind::Pad { phase, deviation } => {
                let mut v: Vec<u8> = (0..len).map(|i| if (i + phase as usize) % 2 == 0 { 0xEC } else { 0x11 }).collect();
                let at = match deviation {
                    1 => Some(len - 1),
                    2 => Some(0),
                    3 => Some(len / 2),
                    _ => None,
                };
                if let Some(a) = at {
                    v[a] = next(a) | 2; // never EC (0xEC has bit 1 clear... keep it different from both pad bytes)
                    if v[a] == 0xEC || v[a] == 0x11 {
                        v[a] = 0x5A;
                    }
                }
                v
            }
            BlockKind::CopyOfPrevious if b > 0 => {
                let pl = lay.data_len(b - 1);
                (0..len).map(|i| d[off - pl + i % pl]).collect()
            }
            BlockKind::CopyOfPrevious => (0..len).map(|i| next(i)).collect(),
            BlockKind::PrefixPlusRemainder { prefix, align, take } => {
                let mut v: Vec<u8> = (0..len).map(|i| next(i + b) | 1).collect();
                let unit = [4usize, 2, 1][align as usize % 3];
                let p = (1 + pick(prefix, len.saturating_sub(1).max(1))) / unit * unit;
                if p >= 1 && p < len {
                    let rem = refmodel::gf::rs_remainder(&v[..p], lay.ec);
                    let k = (take as usize).min(rem.len()).min(len - p);
                    v[p..p + k].copy_from_slice(&rem[..k]);
                }
                v
            }
            BlockKind::NearCopy { at, how } => {
                let mut v: Vec<u8> = if b > 0 {
                    let pl = lay.data_len(b - 1);
                    (0..len).map(|i| d[off - pl + i % pl]).collect()
                } else {
                    (0..len).map(|i| next(i)).collect()
                };
                if how >= 4 && len >= 3 {
                    // TWO neighbouring bytes changed so that a weak digest of the block (sum, xor, any commutative
                    // fold, h*m+byte with a small odd multiplier m) keeps its value: the two blocks differ, every
                    // such digest says they are equal
                    let p = pick(at, len - 2);
                    let (a, c) = (v[p], v[p + 1]);
                    let lin = |m: u8| -> (u8, u8) {
                        if a < 255 && c >= m {
                            (a + 1, c - m)
                        } else if a > 0 && c as u16 + m as u16 <= 255 {
                            (a - 1, c + m)
                        } else {
                            (a.wrapping_add(1), c.wrapping_sub(m))
                        }
                    };
                    match how {
                        4 => v.swap(p, p + if a != c { 1 } else { 2 }),
                        5 => {
                            let x = 1 | next(p);
                            v[p] ^= x;
                            v[p + 1] ^= x;
                        }
                        _ => {
                            let (na, nc) = lin([1u8, 31, 33, 37, 131][(how as usize - 6) % 5]);
                            v[p] = na;
                            v[p + 1] = nc;
                        }
                    }
                    v
                } else {
                let p = pick(at, len);
                v[p] = match how {
                    0 => !v[p],
                    1 => 0x00,
                    2 => 0xFF,
                    _ => v[p].wrapping_add(1),
                };
                v
                }
            }
            BlockKind::GeneratorMultiple => {
                // q(x) of degree len - 1 - ec times g(x) (degree ec): a codeword polynomial of degree len - 1 ... the
                // block is the DATA part only, so take data = first `len` coefficients of (m(x) * x^ec + remainder):
                // choose the data so that its remainder is zero: data(x) * x^ec divisible by g  <=>  data(x) divisible by g
                let mut v = vec![0u8; len];
                if len > lay.ec {
                    let q: Vec<u8> = (0..len - lay.ec).map(|i| next(i) | 1).collect();
                    for (i, &qi) in q.iter().enumerate() {
                        for (j, &gj) in g.iter().enumerate() {
                            v[i + j] ^= refmodel::gf::mul(qi, gj);
                        }
                    }
                } else {
                    for x in v.iter_mut() {
                        *x = 0;
                    }
                }
                v
            }
        };
        d[off..off + len].copy_from_slice(&block);
        if b == 0 {
            // the header (mode indicator 0100, count = full capacity) occupies the first bits of block 0: put the real
            // values there so that a later (near-)copy of block 0 copies the codewords the symbol will really carry
            let hv: u64 = (0b0100u64 << cci_bits(version, Mode::Byte)) | cap as u64;
            for i in 0..header {
                let bit = (hv >> (header - 1 - i)) & 1;
                if i / 8 < len {
                    d[i / 8] = (d[i / 8] & !(1 << (7 - i % 8))) | ((bit as u8) << (7 - i % 8));
                }
            }
        }
        off += len;
    }
    // stream bits -> payload bits
    let mut payload = vec![0u8; cap];
    for p in 0..8 * cap {
        let sb = header + p;
        if sb / 8 >= total_data {
            break;
        }
        if d[sb / 8] >> (7 - sb % 8) & 1 == 1 {
            payload[p / 8] |= 1 << (7 - p % 8);
        }
    }
    payload
}

/// A build whose data blocks have generated kinds: version (2..=40, weighted to the small multi-block ones), level, mask
/// forced or automatic.
pub fn block_lookalike_case() -> BoxedStrategy<(BuildCase, &'static str)> {
    (prop_oneof![3 => 2usize..=12, 1 => 2usize..=40], 0usize..4, prop_oneof![Just(None), (0u8..8).prop_map(Some)], vec(block_kind(), 1..6), vec(any::<u8>(), 16..64))
        .prop_map(|(v, li, mask, kinds, noise)| {
            let level = Level::from_index(li);
            let payload = block_payload(v, level, &kinds, &noise);
            (BuildCase::new(payload, Opts { mode: Some(Mode::Byte), level: Some(level), version: Some(v), mask }), "block_lookalike")
        })
        .boxed()
}

/// Automatic-mask builds in small and medium versions (1..=14, weighted to the small ones): exact penalty ties
/// between candidates are frequent only there (about 0.4% of V1 builds, 0.15% at V10, practically none above V14),
/// and a tie is what separates "mask chosen" from "mask applied" / "mask reported" faults.
pub fn auto_mask_small() -> BoxedStrategy<(BuildCase, &'static str, Cell)> {
    (prop_oneof![4 => 1usize..=3, 3 => 4usize..=9, 4 => 10usize..=12, 1 => 13usize..=14], 0usize..4, 0usize..3, any_force())
        .prop_flat_map(|(v, li, mi, force)| {
            let cell = Cell { version: v, level: Level::from_index(li), mode: Mode::from_index(mi) };
            case_in_cell(cell, force, None).prop_map(move |(c, f)| (c, f, cell))
        })
        .boxed()
}

/// Short payloads inside a forced (larger than necessary) version: padding blocks, block-boundary endings
pub fn padded_forced() -> BoxedStrategy<(BuildCase, &'static str, Cell)> {
    (any_cell(), any_mask(), any::<bool>(), any::<bool>())
        .prop_flat_map(|(cell, mask, fm, fl)| case_in_cell(cell, Force { mode: fm, level: fl, version: true }, mask).prop_map(move |(c, f)| (c, f, cell)))
        .boxed()
}

/// Payloads that look like what people put into QR codes - links (lower, UPPER and mixed case schemes and hosts),
/// mail / phone / geo / Wi-Fi / vCard / key=value text, serial numbers, times and dates - with generated fields.
/// Content-sniffing heuristics (a fast path for "links", for "numbers with separators", ...) only ever see such inputs.
pub fn realistic_payload() -> BoxedStrategy<Vec<u8>> {
    let word = "[a-z]{2,10}";
    let up = "[A-Z0-9]{2,12}";
    let num = "[0-9]{1,14}";
    let s = prop_oneof![
        (prop_oneof![Just("http://"), Just("https://"), Just("HTTP://"), Just("HTTPS://"), Just("Https://"), Just("ftp://"), Just("WWW.")], word, word, num)
            .prop_map(|(sch, a, b, n)| format!("{}{}.com/{}/{}", sch, a, b, n)),
        (prop_oneof![Just("HTTP://"), Just("HTTPS://")], up, up, num).prop_map(|(sch, a, b, n)| format!("{}{}.COM/{}/{}", sch, a, b, n)),
        (prop_oneof![Just("https://"), Just("HTTPS://")], word, word, num, word).prop_map(|(sch, a, b, n, q)| format!("{}{}.org/{}?id={}&{}=1", sch, a, b, n, q)),
        (prop_oneof![Just("mailto:"), Just("MAILTO:"), Just("tel:+"), Just("TEL:+"), Just("sms:"), Just("geo:"), Just("GEO:")], num, num).prop_map(|(p, a, b)| format!("{}{},{}", p, a, b)),
        (word, word).prop_map(|(a, b)| format!("WIFI:S:{};T:WPA;P:{};;", a, b)),
        (up, up).prop_map(|(a, b)| format!("WIFI:S:{};T:WPA;P:{};;", a, b)),
        (word, word, num).prop_map(|(a, b, n)| format!("BEGIN:VCARD\nVERSION:3.0\nN:{};{}\nTEL:{}\nEND:VCARD", a, b, n)),
        (up, up).prop_map(|(a, b)| format!("{}={}", a, b)),
        (up, num).prop_map(|(a, n)| format!("{} {}", a, n)),
        (up, num).prop_map(|(a, n)| format!("{}-{}", a, n)),
        (0u32..24, 0u32..60, 0u32..60).prop_map(|(h, m, s)| format!("{:02}:{:02}:{:02}", h, m, s)),
        (1990u32..2100, 1u32..13, 1u32..29).prop_map(|(y, m, d)| format!("{}-{:02}-{:02}", y, m, d)),
        (1990u32..2100, 1u32..13, 1u32..29, 0u32..24, 0u32..60).prop_map(|(y, m, d, h, mi)| format!("{}:{:02}:{:02}:{:02}:{:02}", y, m, d, h, mi)),
        (num, num).prop_map(|(a, b)| format!("{}.{}", a, b)),
        (num, num).prop_map(|(a, b)| format!("{}/{}", a, b)),
        (num, num).prop_map(|(a, b)| format!("{} {}", a, b)),
        num.prop_map(|n| n),
        (num, num, num).prop_map(|(a, b, c)| format!("{}{}{}", a, b, c)),
        (up, up, up).prop_map(|(a, b, c)| format!("{}/{}/{}", a, b, c)),
        "[a-zA-Z0-9+/]{24,64}",
        // names, addresses, messages with letters outside ASCII
        "[A-Z][a-zàâäçèéêëîïôöùûüÿñßøåæ]{2,12} [A-Z][a-zàâäçèéêëîïôöùûüÿñßøåæ]{2,14}",
        "[a-zà-öø-ÿ ]{8,60}",
        ("[a-zà-öø-ÿ]{2,12}", num).prop_map(|(a, n)| format!("{} {} €", a, n)),
        "[α-ωА-я ]{4,40}",
        "[一-龥]{2,30}",
        (word, "[0-9a-f]{24,40}").prop_map(|(a, h)| format!("{}/{}", a, h)),
    ];
    (s, 0usize..16, 0usize..TOKENS.len()).prop_map(|(x, where_, t)| {
        let mut v = x.into_bytes();
        match where_ {
            // a special token in front of / behind the text (a byte-order mark from a Windows editor, a trailing line end ...)
            0 => {
                let mut w = TOKENS[t].to_vec();
                w.extend_from_slice(&v);
                v = w;
            }
            1 => v.extend_from_slice(TOKENS[t]),
            2 => {
                let mut w = b"\xEF\xBB\xBF".to_vec();
                w.extend_from_slice(&v);
                v = w;
            }
            3 => v.extend_from_slice(b"\r\n"),
            _ => {}
        }
        v
    })
    .boxed()
}
