//! Shared proptest strategies: cells, lengths, payload families, option sets.

use crate::fq::{BuildCase, Opts};
use proptest::collection::vec;
use proptest::prelude::*;
use refmodel::tables::*;

#[derive(Clone, Copy, Debug, PartialEq, Eq, Hash)]
pub struct Cell {
    pub version: usize,
    pub level: Level,
    pub mode: Mode,
}

impl Cell {
    pub fn cap(&self) -> usize {
        capacity(self.version, self.level, self.mode)
    }
    /// smallest length for which this version is the minimal one
    pub fn lo(&self) -> usize {
        if self.version == 1 {
            0
        } else {
            capacity(self.version - 1, self.level, self.mode) + 1
        }
    }
    pub fn index(&self) -> usize {
        ((self.version - 1) * 4 + self.level as usize) * 3 + self.mode as usize
    }
    pub fn from_index(i: usize) -> Cell {
        Cell { version: i / 12 + 1, level: Level::from_index((i / 3) % 4), mode: Mode::from_index(i % 3) }
    }
}

pub fn all_cells() -> Vec<Cell> {
    (0..480).map(Cell::from_index).collect()
}

/// monotone index mapping (shrinks towards 0)
pub fn pick(sel: u16, n: usize) -> usize {
    if n == 0 {
        0
    } else {
        ((sel as usize) * n) >> 16
    }
}

const NON_DIGIT_ALNUM: &[u8] = b"ABCDEFGHIJKLMNOPQRSTUVWXYZ $%*+-./:";

/// Payload of exactly `len` characters belonging to the class `mode`.
/// If `strict_class` the payload is constructed so that the reference classifier returns exactly
/// `mode` (needed when the mode is chosen automatically); otherwise it only lies inside the alphabet.
pub fn payload(mode: Mode, len: usize, strict_class: bool) -> BoxedStrategy<(Vec<u8>, &'static str)> {
    let base: BoxedStrategy<(Vec<u8>, &'static str)> = match mode {
        Mode::Numeric => prop_oneof![
            6 => vec(b'0'..=b'9', len).prop_map(|v| (v, "num_uniform")),
            1 => Just((vec![b'0'; len], "num_all0")),
            1 => Just((vec![b'9'; len], "num_all9")),
            1 => vec(b'0'..=b'9', len).prop_map(|mut v| {
                for (i, d) in v.iter_mut().enumerate() {
                    if i % 3 != 2 {
                        *d = b'0';
                    }
                }
                (v, "num_leading_zero_groups")
            }),
            1 => vec(prop_oneof![Just(b'0'), Just(b'1'), Just(b'9')], len).prop_map(|v| (v, "num_019")),
        ]
        .boxed(),
        Mode::Alphanumeric => prop_oneof![
            6 => vec(0usize..45, len).prop_map(|v| (v.into_iter().map(|i| ALNUM_SET[i]).collect(), "alnum_uniform")),
            1 => Just((vec![b':'; len], "alnum_all_colon")),
            1 => Just((vec![b'0'; len], "alnum_all0")),
            1 => vec(b'0'..=b'9', len).prop_map(|v| (v, "alnum_digits")),
            1 => vec(prop_oneof![Just(b':'), Just(b'0'), Just(b'Z'), Just(b' ')], len).prop_map(|v| (v, "alnum_extremes")),
            1 => vec(36usize..45, len).prop_map(|v| (v.into_iter().map(|i| ALNUM_SET[i]).collect(), "alnum_symbols")),
        ]
        .boxed(),
        Mode::Byte => prop_oneof![
            6 => vec(any::<u8>(), len).prop_map(|v| (v, "byte_uniform")),
            1 => Just((vec![0u8; len], "byte_all00")),
            1 => Just((vec![0xFFu8; len], "byte_allFF")),
            1 => Just(((0..len).map(|i| if i % 2 == 0 { 0xEC } else { 0x11 }).collect(), "byte_pad_lookalike")),
            1 => vec(prop_oneof![Just(0x10u8), Just(0x20), Just(0x40), Just(0x41), Just(0x14), Just(0x00), Just(0x0F)], len)
                .prop_map(|v| (v, "byte_mode_indicator_nibbles")),
            1 => vec(prop_oneof![32u8..127, 0xC3u8..=0xC3, 0x80u8..0xC0], len).prop_map(|v| (v, "byte_textish")),
            1 => vec(b'a'..=b'z', len).prop_map(|v| (v, "byte_lowercase")),
            // narrower classes: only stay as they are when the mode is forced (strict_class re-classes them)
            1 => vec(b'0'..=b'9', len).prop_map(|v| (v, "byte_digits_only")),
            1 => vec(0usize..45, len).prop_map(|v| (v.into_iter().map(|i| ALNUM_SET[i]).collect(), "byte_alnum_only")),
        ]
        .boxed(),
    };
    if !strict_class || len == 0 {
        return base;
    }
    match mode {
        Mode::Numeric => base,
        Mode::Alphanumeric => (base, any::<u16>(), any::<u16>())
            .prop_map(move |((mut v, fam), pos, which)| {
                if classify(&v) != Mode::Alphanumeric {
                    let p = pick(pos, v.len());
                    v[p] = NON_DIGIT_ALNUM[pick(which, NON_DIGIT_ALNUM.len())];
                }
                (v, fam)
            })
            .boxed(),
        Mode::Byte => (base, any::<u16>(), any::<u8>())
            .prop_map(move |((mut v, fam), pos, which)| {
                if classify(&v) != Mode::Byte {
                    let p = pick(pos, v.len());
                    // a byte outside the 45-character set
                    let mut b = which;
                    while alnum_value(b).is_some() {
                        b = b.wrapping_add(0x61);
                    }
                    v[p] = b;
                }
                (v, fam)
            })
            .boxed(),
    }
}

/// Lengths for a cell. With an automatic version the length must lie in [lo, cap] for the build to
/// land in this cell; with a forced version anything in [0, cap] is allowed.
pub fn length(cell: Cell, forced_version: bool, min_len: usize) -> BoxedStrategy<usize> {
    let cap = cell.cap();
    let lo = if forced_version { 0 } else { cell.lo() };
    let lo = lo.max(min_len).min(cap);
    let clamp = move |x: usize| x.max(lo).min(cap);
    let near = cap.saturating_sub(9).max(lo);
    prop_oneof![
        3 => Just(cap),
        2 => Just(clamp(cap.saturating_sub(1))),
        1 => Just(clamp(cap.saturating_sub(2))),
        2 => Just(lo),
        1 => Just(clamp(lo + 1)),
        1 => Just(clamp((lo + cap) / 2)),
        3 => (near..=cap),
        3 => (lo..=cap),
        1 => (lo..=clamp(lo + 8)),
    ]
    .boxed()
}

#[derive(Clone, Copy, Debug)]
pub struct Force {
    pub mode: bool,
    pub level: bool,
    pub version: bool,
}

/// A build that lands in `cell`: options forced per `force` (level can only be left automatic in a Q
/// cell), mask as given. Returns the case and the payload family label.
pub fn case_in_cell(cell: Cell, force: Force, mask: Option<u8>) -> BoxedStrategy<(BuildCase, &'static str)> {
    let force_level = force.level || cell.level != Level::Q;
    // with automatic mode the empty input is Numeric, so other classes need >= 1 character
    let min_len = if !force.mode && cell.mode != Mode::Numeric { 1 } else { 0 };
    if cell.cap() < min_len {
        // cannot happen for real cells (every cell holds >= 1 character)
        unreachable!();
    }
    length(cell, force.version, min_len)
        .prop_flat_map(move |len| payload(cell.mode, len, !force.mode))
        .prop_map(move |(input, fam)| {
            let opts = Opts {
                mode: if force.mode { Some(cell.mode) } else { None },
                level: if force_level { Some(cell.level) } else { None },
                version: if force.version { Some(cell.version) } else { None },
                mask,
            };
            (BuildCase::new(input, opts), fam)
        })
        .boxed()
}

pub fn any_cell() -> impl Strategy<Value = Cell> {
    // version weighted: small versions shrink target; uniform over all 480 cells with extra weight on small ones
    prop_oneof![
        3 => (0usize..480).prop_map(Cell::from_index),
        1 => (0usize..72).prop_map(Cell::from_index),
    ]
}

pub fn any_force() -> impl Strategy<Value = Force> {
    (any::<bool>(), any::<bool>(), any::<bool>()).prop_map(|(mode, level, version)| Force { mode, level, version })
}

pub fn any_mask() -> impl Strategy<Value = Option<u8>> {
    prop_oneof![1 => Just(None), 2 => (0u8..8).prop_map(Some)]
}

/// Fully random valid build: random cell, options, boundary-biased length, payload family
pub fn any_case() -> BoxedStrategy<(BuildCase, &'static str, Cell)> {
    (any_cell(), any_force(), any_mask())
        .prop_flat_map(|(cell, force, mask)| case_in_cell(cell, force, mask).prop_map(move |(c, f)| (c, f, cell)))
        .boxed()
}

pub fn version_band(v: usize) -> &'static str {
    if v <= 9 {
        "v1-9"
    } else if v <= 26 {
        "v10-26"
    } else {
        "v27-40"
    }
}
