//! Renderer configurations shared by the SVG / raster / file / WASM properties.

use fast_qr::convert::{Builder, ImageBackgroundShape, Shape};
use proptest::prelude::*;
use serde_json::{json, Value};

#[derive(Clone, Debug, PartialEq)]
pub enum ColorSpec {
    Rgb([u8; 3]),
    Rgba([u8; 4]),
    Css(String),
}

impl ColorSpec {
    /// the colour string the SVG must carry
    pub fn expected(&self) -> String {
        match self {
            ColorSpec::Rgb(c) => format!("#{:02x}{:02x}{:02x}", c[0], c[1], c[2]),
            ColorSpec::Rgba(c) => {
                if c[3] == 255 {
                    format!("#{:02x}{:02x}{:02x}", c[0], c[1], c[2])
                } else {
                    format!("#{:02x}{:02x}{:02x}{:02x}", c[0], c[1], c[2], c[3])
                }
            }
            ColorSpec::Css(s) => s.clone(),
        }
    }
    pub fn rgba(&self) -> Option<[u8; 4]> {
        match self {
            ColorSpec::Rgb(c) => Some([c[0], c[1], c[2], 255]),
            ColorSpec::Rgba(c) => Some(*c),
            ColorSpec::Css(_) => None,
        }
    }
    /// like `rgba`, and hex colour STRINGS are understood too: #rgb, #rgba, #rrggbb, #rrggbbaa (CSS: a short digit d means dd)
    pub fn rgba_any(&self) -> Option<[u8; 4]> {
        if let ColorSpec::Css(s) = self {
            let h = s.strip_prefix('#')?;
            if !h.bytes().all(|b| b.is_ascii_hexdigit()) {
                return None;
            }
            let d = |i: usize| u8::from_str_radix(&h[i..i + 1], 16).ok();
            let dd = |i: usize| u8::from_str_radix(&h[i..i + 2], 16).ok();
            return match h.len() {
                3 => Some([d(0)? * 17, d(1)? * 17, d(2)? * 17, 255]),
                4 => Some([d(0)? * 17, d(1)? * 17, d(2)? * 17, d(3)? * 17]),
                6 => Some([dd(0)?, dd(2)?, dd(4)?, 255]),
                8 => Some([dd(0)?, dd(2)?, dd(4)?, dd(6)?]),
                _ => None,
            };
        }
        self.rgba()
    }
    pub fn alpha_lt_255(&self) -> bool {
        matches!(self, ColorSpec::Rgba(c) if c[3] != 255)
    }
    pub fn to_json(&self) -> Value {
        match self {
            ColorSpec::Rgb(c) => json!({"rgb": c}),
            ColorSpec::Rgba(c) => json!({"rgba": c}),
            ColorSpec::Css(s) => json!({"css": s}),
        }
    }
    pub fn from_json(v: &Value) -> Option<ColorSpec> {
        if let Some(a) = v.get("rgb").and_then(|x| x.as_array()) {
            let c: Vec<u8> = a.iter().filter_map(|x| x.as_u64().map(|y| y as u8)).collect();
            return Some(ColorSpec::Rgb([c[0], c[1], c[2]]));
        }
        if let Some(a) = v.get("rgba").and_then(|x| x.as_array()) {
            let c: Vec<u8> = a.iter().filter_map(|x| x.as_u64().map(|y| y as u8)).collect();
            return Some(ColorSpec::Rgba([c[0], c[1], c[2], c[3]]));
        }
        v.get("css").and_then(|x| x.as_str()).map(|s| ColorSpec::Css(s.to_string()))
    }
}

pub const SHAPES: [Shape; 6] = [Shape::Square, Shape::Circle, Shape::RoundedSquare, Shape::Vertical, Shape::Horizontal, Shape::Diamond];
pub const SHAPE_NAMES: [&str; 6] = ["Square", "Circle", "RoundedSquare", "Vertical", "Horizontal", "Diamond"];
pub const BG_SHAPES: [ImageBackgroundShape; 3] = [ImageBackgroundShape::Square, ImageBackgroundShape::Circle, ImageBackgroundShape::RoundedSquare];
pub const BG_SHAPE_NAMES: [&str; 3] = ["Square", "Circle", "RoundedSquare"];

#[derive(Clone, Debug, PartialEq, Default)]
pub struct SvgCfg {
    pub margin: Option<usize>,
    /// shape()/shape_color() calls in order: (shape index, explicit colour)
    pub layers: Vec<(usize, Option<ColorSpec>)>,
    pub module_color: Option<ColorSpec>,
    pub background: Option<ColorSpec>,
    pub image: Option<String>,
    pub image_bg_color: Option<ColorSpec>,
    pub image_bg_shape: Option<usize>,
    pub image_size: Option<f64>,
    pub image_gap: Option<f64>,
    pub image_position: Option<(f64, f64)>,
    /// Renderer instance reuse: before the render under test the SAME builder instance, configured identically but
    /// with margin `.0`, renders another symbol (of version `.1`, or the symbol under test itself when None); then
    /// the margin is set to its final value. The output must be what a fresh builder would produce.
    pub warm: Option<(usize, Option<usize>)>,
    /// order in which the setter groups are called (0 = documentation order), see `apply`
    pub order: u8,
    /// What ANOTHER renderer instance did on this thread just before: 0 nothing; 1..=3 a fresh builder with 2..=4 shape
    /// layers in explicit colours rendered a small symbol; 4 a fresh builder tried to render a hand-made QRCode value of
    /// an impossible size (that call panics - caught - or fails). Rendering depends on the QR code and the renderer's own
    /// options only, so none of this may show in the output under test.
    pub pred: u8,
}

/// `via` selects the documented conversion into `Color` that is used: 0 arrays / &str, 1 slices / String,
/// 2 Vec<u8> / String - all must give the same colour
fn set_color<B: Builder>(b: &mut B, which: u8, c: &ColorSpec, via: u8) {
    macro_rules! set {
        ($v:expr) => {
            match which {
                0 => {
                    b.module_color($v);
                }
                1 => {
                    b.background_color($v);
                }
                _ => {
                    b.image_background_color($v);
                }
            }
        };
    }
    match (c, via % 3) {
        (ColorSpec::Rgb(x), 0) => set!(*x),
        (ColorSpec::Rgb(x), 1) => set!(&x[..]),
        (ColorSpec::Rgb(x), _) => set!(x.to_vec()),
        (ColorSpec::Rgba(x), 0) => set!(*x),
        (ColorSpec::Rgba(x), 1) => set!(&x[..]),
        (ColorSpec::Rgba(x), _) => set!(x.to_vec()),
        (ColorSpec::Css(x), 0) => set!(x.as_str()),
        (ColorSpec::Css(x), _) => set!(x.clone()),
    }
}

impl SvgCfg {
    pub fn margin_eff(&self) -> usize {
        self.margin.unwrap_or(4)
    }

    /// configure any renderer implementing the common Builder trait. The nine setter groups are called in an order
    /// derived from `order` (0 = the order of the documentation); the result must not depend on it. shape() calls are
    /// one group and keep their relative order (they are an ordered list of layers by design).
    pub fn apply<B: Builder>(&self, b: &mut B) {
        self.apply_layers(b, self.layers.len());
    }

    /// Does the warm-up render happen BEFORE the last shape layer is added? (warm-up margins divisible by 3, at least one
    /// layer): the renderer instance first renders with the layers it has so far, then gets its last layer.
    pub fn late_layer(&self) -> bool {
        matches!(self.warm, Some((m0, _)) if m0 % 3 == 0) && !self.layers.is_empty()
    }

    /// `apply` for renderers that go through the warm-up afterwards (`svg_string`, `warm_up_image_builder`,
    /// `warm_up_svg_builder`): with `late_layer()` the last layer is left to the warm-up
    pub fn apply_for_warm<B: Builder>(&self, b: &mut B) {
        self.apply_layers(b, if self.late_layer() { self.layers.len() - 1 } else { self.layers.len() });
    }

    fn add_layer<B: Builder>(&self, b: &mut B, si: usize, col: &Option<ColorSpec>) {
        match col {
            None => { b.shape(SHAPES[si]); }
            Some(ColorSpec::Rgb(x)) if self.order & 64 != 0 => { b.shape_color(SHAPES[si], x.to_vec()); }
            Some(ColorSpec::Rgba(x)) if self.order & 64 != 0 => { b.shape_color(SHAPES[si], &x[..]); }
            Some(ColorSpec::Rgb(x)) => { b.shape_color(SHAPES[si], *x); }
            Some(ColorSpec::Rgba(x)) => { b.shape_color(SHAPES[si], *x); }
            Some(ColorSpec::Css(x)) => { b.shape_color(SHAPES[si], x.as_str()); }
        }
    }

    fn apply_layers<B: Builder>(&self, b: &mut B, n_layers: usize) {
        let mut groups: Vec<usize> = (0..10).collect();
        // deterministic permutation from `order` (Fisher-Yates with a small LCG)
        let mut x = self.order as u64;
        if x != 0 {
            for i in (1..groups.len()).rev() {
                x = x.wrapping_mul(6364136223846793005).wrapping_add(1442695040888963407);
                groups.swap(i, (x >> 33) as usize % (i + 1));
            }
        }
        for g in groups {
            match g {
                0 => {
                    if let Some(m) = self.margin {
                        b.margin(m);
                    }
                }
                1 => {
                    for (si, col) in self.layers.iter().take(n_layers) {
                        self.add_layer(b, *si, col);
                    }
                }
                2 => {
                    if let Some(c) = &self.module_color {
                        set_color(b, 0, c, self.order >> 2);
                    }
                }
                3 => {
                    if let Some(c) = &self.background {
                        set_color(b, 1, c, self.order >> 3);
                    }
                }
                4 => {
                    if let Some(i) = &self.image {
                        b.image(i.clone());
                    }
                }
                5 => {
                    if let Some(c) = &self.image_bg_color {
                        set_color(b, 2, c, self.order >> 4);
                    }
                }
                6 => {
                    if let Some(s) = self.image_bg_shape {
                        b.image_background_shape(BG_SHAPES[s]);
                    }
                }
                7 => {
                    if let Some(s) = self.image_size {
                        b.image_size(s);
                    }
                }
                8 => {
                    if let Some(g) = self.image_gap {
                        b.image_gap(g);
                    }
                }
                _ => {
                    if let Some((x, y)) = self.image_position {
                        b.image_position(x, y);
                    }
                }
            }
        }
    }

    /// the symbol rendered during the warm-up
    fn warm_qr(v: Option<usize>) -> Option<fast_qr::QRCode> {
        let v = v?;
        fast_qr::QRBuilder::new("WARM-UP 123").version(crate::fq::f_version(v.clamp(1, 40))).ecl(fast_qr::ECL::L).build().ok()
    }

    /// Warm-up values: the margin becomes `m0`; with an odd `m0` every last-value-wins option that the final
    /// configuration sets (module / background / frame colour, image reference, frame shape, image size, gap and
    /// position) is first given ANOTHER value. Shape layers are left alone (shape() appends, it cannot be undone).
    fn warm_perturb<B: Builder>(&self, b: &mut B, m0: usize) {
        b.margin(m0);
        if m0 % 2 == 0 {
            return;
        }
        // m0 = 5 or 7: only ONE of the image placement options is perturbed (and later restored): a setter history like
        // size, gap, size', size - the other placement values were set once and must survive
        if m0 == 5 || m0 == 7 {
            match (m0, self.image_size, self.image_gap) {
                (5, Some(s), _) => {
                    b.image_size(s + 1.5);
                }
                (7, _, Some(g)) => {
                    b.image_gap(g + 0.75);
                }
                _ => {}
            }
            return;
        }
        let other = |c: &ColorSpec| -> [u8; 4] {
            match c {
                ColorSpec::Rgb(x) => [x[0] ^ 0x5a, x[1].wrapping_add(91), !x[2], 255],
                ColorSpec::Rgba(x) => [!x[0], x[1] ^ 0x33, x[2].wrapping_add(17), x[3] ^ 0x80],
                ColorSpec::Css(_) => [12, 200, 90, 255],
            }
        };
        if let Some(c) = &self.module_color {
            b.module_color(other(c));
        }
        if let Some(c) = &self.background {
            b.background_color(other(c));
        }
        if let Some(c) = &self.image_bg_color {
            b.image_background_color(other(c));
        }
        if let Some(i) = &self.image {
            b.image(format!("warm-{}.png", i.len()));
        }
        if let Some(s) = self.image_bg_shape {
            b.image_background_shape(BG_SHAPES[(s + 1) % 3]);
        }
        if let Some(s) = self.image_size {
            b.image_size(s + 1.5);
        }
        if let Some(g) = self.image_gap {
            b.image_gap(g + 0.75);
        }
        if let Some((x, y)) = self.image_position {
            b.image_position(x + 1.0, y - 1.0);
        }
    }

    /// ... and back to the final values (only the setters that were touched)
    fn warm_restore<B: Builder>(&self, b: &mut B, m0: usize) {
        b.margin(self.margin_eff());
        if m0 % 2 == 0 {
            return;
        }
        if m0 == 5 || m0 == 7 {
            match (m0, self.image_size, self.image_gap) {
                (5, Some(s), _) => {
                    b.image_size(s);
                }
                (7, _, Some(g)) => {
                    b.image_gap(g);
                }
                _ => {}
            }
            return;
        }
        let via = self.order / 7;
        if let Some(c) = &self.module_color {
            set_color(b, 0, c, via);
        }
        if let Some(c) = &self.background {
            set_color(b, 1, c, via);
        }
        if let Some(c) = &self.image_bg_color {
            set_color(b, 2, c, via);
        }
        if let Some(i) = &self.image {
            b.image(i.clone());
        }
        if let Some(s) = self.image_bg_shape {
            b.image_background_shape(BG_SHAPES[s]);
        }
        if let Some(s) = self.image_size {
            b.image_size(s);
        }
        if let Some(g) = self.image_gap {
            b.image_gap(g);
        }
        if let Some((x, y)) = self.image_position {
            b.image_position(x, y);
        }
    }

    /// see the `pred` field
    pub fn run_predecessor(&self, raster: bool) {
        if self.pred == 0 {
            return;
        }
        let _ = crate::engine::catch(|| {
            if self.pred >= 4 {
                let bogus = fast_qr::QRCode::default(if self.margin_eff() % 2 == 0 { 178 } else { 200 });
                if raster {
                    let _ = fast_qr::convert::image::ImageBuilder::default().to_pixmap(&bogus);
                } else {
                    let _ = fast_qr::convert::svg::SvgBuilder::default().to_str(&bogus);
                }
                return;
            }
            let Some(q0) = Self::warm_qr(Some(1 + self.margin_eff() % 4)) else { return };
            const COLS: [[u8; 4]; 4] = [[230, 20, 20, 255], [20, 160, 40, 200], [30, 30, 220, 255], [240, 200, 0, 255]];
            if raster {
                let mut p = fast_qr::convert::image::ImageBuilder::default();
                for k in 0..=self.pred as usize {
                    p.shape_color(SHAPES[(k + self.margin_eff()) % 6], COLS[k % 4]);
                }
                let _ = p.to_pixmap(&q0);
            } else {
                let mut p = fast_qr::convert::svg::SvgBuilder::default();
                for k in 0..=self.pred as usize {
                    p.shape_color(SHAPES[(k + self.margin_eff()) % 6], COLS[k % 4]);
                }
                let _ = p.to_str(&q0);
            }
        });
    }

    /// SVG string from one SvgBuilder instance, after the optional warm-up render
    pub fn svg_string(&self, q: &fast_qr::QRCode) -> String {
        use fast_qr::convert::svg::SvgBuilder;
        self.run_predecessor(false);
        let mut b = SvgBuilder::default();
        self.apply_for_warm(&mut b);
        self.warm_up_svg_builder(&mut b, q);
        b.to_str(q)
    }

    /// warm-up of an SvgBuilder configured with `apply_for_warm`
    pub fn warm_up_svg_builder(&self, b: &mut fast_qr::convert::svg::SvgBuilder, q: &fast_qr::QRCode) {
        if let Some((m0, v0)) = self.warm {
            self.warm_perturb(b, m0);
            match Self::warm_qr(v0) {
                Some(q0) => {
                    let _ = b.to_str(&q0);
                }
                None => {
                    let _ = b.to_str(q);
                }
            }
            self.warm_restore(b, m0);
            if self.late_layer() {
                // render once more with the final values (nothing but the last layer is missing), then add the layer:
                // the last call before the render under test is shape() / shape_color()
                let _ = b.to_str(q);
                let (si, col) = self.layers.last().unwrap();
                self.add_layer(b, *si, col);
            }
        }
    }

    /// the same for a raster builder configured with `apply_for_warm` (the caller adds the fit request before and renders after)
    pub fn warm_up_image_builder(&self, ib: &mut fast_qr::convert::image::ImageBuilder, q: &fast_qr::QRCode) {
        self.run_predecessor(true);
        if let Some((m0, v0)) = self.warm {
            self.warm_perturb(ib, m0);
            match Self::warm_qr(v0.map(|v| v.min(6))) {
                Some(q0) => {
                    let _ = ib.to_pixmap(&q0);
                }
                None => {
                    let _ = ib.to_pixmap(q);
                }
            }
            self.warm_restore(ib, m0);
            if self.late_layer() {
                let _ = ib.to_pixmap(q);
                let (si, col) = self.layers.last().unwrap();
                self.add_layer(ib, *si, col);
            }
        }
    }

    pub fn to_json(&self) -> Value {
        json!({
            "margin": self.margin,
            "layers": self.layers.iter().map(|(s, c)| json!({"shape": SHAPE_NAMES[*s], "color": c.as_ref().map(|c| c.to_json())})).collect::<Vec<_>>(),
            "module_color": self.module_color.as_ref().map(|c| c.to_json()),
            "background": self.background.as_ref().map(|c| c.to_json()),
            "image": self.image,
            "image_bg_color": self.image_bg_color.as_ref().map(|c| c.to_json()),
            "image_bg_shape": self.image_bg_shape.map(|s| BG_SHAPE_NAMES[s]),
            "image_size": self.image_size,
            "image_gap": self.image_gap,
            "image_position": self.image_position.map(|(x, y)| vec![x, y]),
            "warm": self.warm.map(|(m, v)| json!([m, v])),
            "order": self.order,
            "pred": self.pred,
        })
    }

    pub fn from_json(v: &Value) -> Option<SvgCfg> {
        let mut c = SvgCfg::default();
        c.margin = v.get("margin").and_then(|x| x.as_u64()).map(|x| x as usize);
        if let Some(a) = v.get("layers").and_then(|x| x.as_array()) {
            for l in a {
                let si = SHAPE_NAMES.iter().position(|n| Some(*n) == l.get("shape").and_then(|x| x.as_str()))?;
                let col = l.get("color").filter(|x| !x.is_null()).and_then(ColorSpec::from_json);
                c.layers.push((si, col));
            }
        }
        c.module_color = v.get("module_color").filter(|x| !x.is_null()).and_then(ColorSpec::from_json);
        c.background = v.get("background").filter(|x| !x.is_null()).and_then(ColorSpec::from_json);
        c.image = v.get("image").and_then(|x| x.as_str()).map(|s| s.to_string());
        c.image_bg_color = v.get("image_bg_color").filter(|x| !x.is_null()).and_then(ColorSpec::from_json);
        c.image_bg_shape = v.get("image_bg_shape").and_then(|x| x.as_str()).and_then(|s| BG_SHAPE_NAMES.iter().position(|n| *n == s));
        c.image_size = v.get("image_size").and_then(|x| x.as_f64());
        c.image_gap = v.get("image_gap").and_then(|x| x.as_f64());
        c.image_position = v.get("image_position").and_then(|x| x.as_array()).and_then(|a| Some((a.get(0)?.as_f64()?, a.get(1)?.as_f64()?)));
        c.order = v.get("order").and_then(|x| x.as_u64()).unwrap_or(0) as u8;
        c.pred = v.get("pred").and_then(|x| x.as_u64()).unwrap_or(0) as u8;
        c.warm = v.get("warm").and_then(|x| x.as_array()).and_then(|a| Some((a.first()?.as_u64()? as usize, a.get(1).and_then(|x| x.as_u64()).map(|x| x as usize))));
        Some(c)
    }
}

/// Margins that put some module coordinate (margin + index, index < 177) exactly on, just below or just above a
/// boundary where the textual or binary width of a coordinate changes: 10, 100, 1000, 10 000, 100 000 and 128, 256,
/// 512, 1024, 4096, 65 536 (those <= `max`).
pub fn boundary_margin(max: usize) -> BoxedStrategy<usize> {
    const B: [usize; 11] = [10, 100, 1000, 10_000, 100_000, 128, 256, 512, 1024, 4096, 65_536];
    let bs: Vec<usize> = B.iter().copied().filter(|b| *b <= max).collect();
    (proptest::sample::select(bs), 0usize..60, 0usize..3).prop_map(|(b, back, d)| (b + d).saturating_sub(1 + back)).boxed()
}

/// Image geometry overrides over the whole range a caller may pass (finite values): size 0, fractions, ordinary,
/// very large; gap negative down to and beyond minus half the size (a logo without backing box), zero, positive, large;
/// position anywhere, including coordinates exactly 0.0, negative and beyond the symbol. Each independently absent.
pub fn image_geometry() -> BoxedStrategy<(Option<f64>, Option<f64>, Option<(f64, f64)>)> {
    let value = |lo: f64, hi: f64| -> BoxedStrategy<f64> {
        prop_oneof![
            3 => ((lo.ceil() as i64)..=(hi.floor() as i64)).prop_map(|x| x as f64),
            2 => ((2.0 * lo).ceil() as i64..=(2.0 * hi).floor() as i64).prop_map(|x| x as f64 / 2.0),
            3 => (0u32..=1_000_000).prop_map(move |t| lo + (hi - lo) * (t as f64) / 1_000_000.0),
        ]
        .boxed()
    };
    let size = prop_oneof![
        3 => Just(None),
        5 => value(1.0, 40.0).prop_map(Some),
        1 => prop_oneof![Just(0.0f64), Just(-0.0f64), Just(0.25), Just(0.5), Just(1e-9), Just(1e-300), Just(1000.0), Just(1e9), Just(1e300)].prop_map(Some),
    ];
    (size, 0usize..12, value(-12.0, 12.0), any::<[bool; 2]>(), value(-20.0, 220.0), value(-20.0, 220.0), 0usize..8).prop_map(|(size, gsel, gabs, present, x, y, psel)| {
        let s = size.unwrap_or(5.0);
        let gap = if !present[0] {
            None
        } else {
            Some(match gsel {
                0 => -s / 2.0,
                1 => -s,
                2 => -s / 2.0 - 0.5,
                3 => -s / 2.0 + 0.5,
                4 => -s / 4.0,
                5 => 0.0,
                6 => s,
                7 => 1e6,
                8 => -0.0,
                9 => 1e300,
                _ => gabs,
            })
        };
        let pos = if !present[1] {
            None
        } else {
            Some(match psel {
                0 => (0.0, y),
                1 => (x, 0.0),
                2 => (0.0, 0.0),
                3 => (-x, y),
                5 => (-0.0, y),
                6 => (x, 1e300),
                _ => (x, y),
            })
        };
        (size, gap, pos)
    })
    .boxed()
}

/// warm-up settings for renderer-instance reuse (absent in 3 of 5 cases)
pub fn warm_strategy() -> BoxedStrategy<Option<(usize, Option<usize>)>> {
    prop_oneof![
        3 => Just(None),
        1 => (0usize..=8).prop_map(|m| Some((m, None))),
        1 => (0usize..=8, 1usize..=5).prop_map(|(m, v)| Some((m, Some(v)))),
    ]
    .boxed()
}

pub fn rgb_color() -> BoxedStrategy<ColorSpec> {
    prop_oneof![
        3 => any::<[u8; 3]>().prop_map(ColorSpec::Rgb),
        1 => Just(ColorSpec::Rgb([0, 0, 0])),
        1 => Just(ColorSpec::Rgb([0x0a, 0x00, 0xff])),
    ]
    .boxed()
}

pub fn any_color() -> BoxedStrategy<ColorSpec> {
    prop_oneof![
        // colours that coincide with the defaults and with each other (an explicit black layer, an explicit white
        // background, the same colour given as RGB and as RGBA with alpha 255)
        2 => Just(ColorSpec::Rgb([0, 0, 0])),
        1 => Just(ColorSpec::Rgba([0, 0, 0, 255])),
        1 => Just(ColorSpec::Rgb([255, 255, 255])),
        1 => prop_oneof![Just([200u8, 30, 30]), Just([30u8, 30, 200])].prop_map(ColorSpec::Rgb),
        3 => any::<[u8; 3]>().prop_map(ColorSpec::Rgb),
        3 => any::<[u8; 4]>().prop_map(ColorSpec::Rgba),
        1 => any::<[u8; 3]>().prop_map(|c| ColorSpec::Rgba([c[0], c[1], c[2], 255])),
        1 => any::<[u8; 3]>().prop_map(|c| ColorSpec::Rgba([c[0], c[1], c[2], 0])),
        1 => any::<[u8; 3]>().prop_map(|c| ColorSpec::Rgba([c[0], c[1], c[2], 0x0f])),
        1 => prop_oneof![Just("red"), Just("rgb(10, 20, 30)"), Just("#abc"), Just("currentColor"), Just("hsl(120 50% 50%)"), Just("none"), Just("transparent")]
            .prop_map(|s| ColorSpec::Css(s.to_string())),
    ]
    .boxed()
}

/// Colours for setter HISTORIES: mostly a palette of five (the two defaults among them), so that a value set on one
/// option often equals the value another option holds at that moment; otherwise `any_color`.
pub fn palette_color() -> BoxedStrategy<ColorSpec> {
    prop_oneof![
        2 => Just(ColorSpec::Rgb([255, 255, 255])),
        2 => Just(ColorSpec::Rgb([0, 0, 0])),
        1 => Just(ColorSpec::Rgb([200, 30, 30])),
        1 => Just(ColorSpec::Rgba([255, 255, 255, 255])),
        1 => Just(ColorSpec::Rgba([30, 30, 200, 128])),
        3 => any_color(),
    ]
    .boxed()
}

/// Image references: URLs, data URIs, paths; printable ASCII and non-ASCII text with the XML-special
/// characters & < > " ' forced in. No control characters (XML cannot carry them).
pub fn image_string() -> BoxedStrategy<String> {
    let special = prop_oneof![
        Just("&"), Just("<"), Just(">"), Just("\""), Just("'"), Just("]]>"), Just("--"), Just("&amp;"), Just("&#x41;"), Just("&lt;"),
        Just("\"/><script>"), Just("' onload='x"), Just("%20"), Just("é"), Just("中文"), Just("🚀"), Just(" "), Just("="), Just("?a=1&b=2"), Just("<!--"), Just("&&"), Just("\\"),
        // what template engines, format strings and shells treat as placeholders (URL templates such as tiles/{z}/{x}/{y}.png are real references)
        Just("{x}"), Just("{y}"), Just("{size}"), Just("{0}"), Just("{}"), Just("{{"), Just("}}"), Just("%s"), Just("%d"), Just("$1"), Just("${x}"), Just("#{id}"), Just("{href}"), Just("{fill}"), Just("{width}"), Just("\\n")
    ];
    let base = prop_oneof![
        Just("https://example.com/logo.png".to_string()),
        Just("https://example.com/i?x=1&y=2".to_string()),
        Just("https://tiles.example.com/{z}/{x}/{y}.png".to_string()),
        Just("logo.png?s={size}&c={fill}".to_string()),
        Just("data:image/png;base64,iVBORw0KGgoAAAANSUhEUgAAABAAAAAQCAIAAACQkWg2AAAAFUlEQVR4AWP4oyVDEhrGGkY1jGoAABACQhA+7XDPAAAAAElFTkSuQmCC".to_string()),
        Just("./assets/logo.svg".to_string()),
        Just("C:\\Users\\me\\My Pictures\\logo.png".to_string()),
        Just("/tmp/a b/c'd.png".to_string()),
        Just("x".to_string()),
        "[ -~]{0,40}",
        "[ -~éü中]{1,24}",
        // references that consist only of letters, digits, '/' and '+' (extension-less hashed paths, bare tokens),
        // in lengths that are and are not multiples of four
        "[a-zA-Z0-9+/]{20,48}",
        ("[a-z]{3,8}", "[a-z]{3,8}", "[0-9a-f]{16,40}").prop_map(|(a, b, h)| format!("{}/{}/{}", a, b, h)),
        ("[0-9a-f]{24,44}").prop_map(|h| format!("/srv/media/{}", h)),
        "[A-Za-z0-9+/]{22,30}={0,2}",
        // a bare base64 image without the data: prefix ("base64 or a url" says the wasm documentation): PNG, GIF, JPEG and SVG signatures
        Just("iVBORw0KGgoAAAANSUhEUgAAABAAAAAQCAIAAACQkWg2AAAAFUlEQVR4AWP4oyVDEhrGGkY1jGoAABACQhA+7XDPAAAAAElFTkSuQmCC".to_string()),
        Just("R0lGODlhAQABAIAAAAAAAP///yH5BAEAAAAALAAAAAABAAEAAAIBRAA7".to_string()),
        Just("/9j/4AAQSkZJRgABAQEASABIAAD/2wBD".to_string()),
        Just("PHN2ZyB4bWxucz0iaHR0cDovL3d3dy53My5vcmcvMjAwMC9zdmciLz4=".to_string()),
        Just("/9j/logo".to_string()),
        // very long references of multi-byte characters (an inline SVG as text, an IRI): tens to hundreds of kilobytes
        (prop_oneof![Just("é"), Just("中"), Just("🚀"), Just("aé")], 20_000usize..120_000).prop_map(|(u, n)| u.repeat(n)),
    ];
    (base, proptest::collection::vec((special, any::<u16>()), 0..4))
        .prop_map(|(mut s, ins)| {
            for (tok, pos) in ins {
                // insert at a char boundary
                let idxs: Vec<usize> = s.char_indices().map(|(i, _)| i).chain([s.len()]).collect();
                let p = idxs[crate::gens::pick(pos, idxs.len())];
                s.insert_str(p, tok);
            }
            s
        })
        .boxed()
}

pub fn has_xml_special(s: &str) -> bool {
    s.chars().any(|c| matches!(c, '&' | '<' | '>' | '"' | '\''))
}
