//! Runner: deterministic sharded execution, proptest glue, statistics, evidence, replays.

use proptest::strategy::Strategy;
use proptest::test_runner::{Config, RngAlgorithm, TestCaseError, TestError, TestRng, TestRunner};
use serde_json::{json, Map, Value};
use std::cell::RefCell;
use std::collections::{BTreeMap, HashSet};
use std::panic::{self, AssertUnwindSafe};
use std::sync::atomic::{AtomicBool, AtomicU64, AtomicUsize, Ordering};
use std::sync::Mutex;
use std::time::Instant;

/// Root of the verification directory (evidence, replays, regress, KNOWN_FINDINGS). `/verif` unless
/// FQV_VERIF_DIR is set (used only by the sensitivity tooling, which runs against scratch copies).
pub fn verif_dir() -> String {
    std::env::var("FQV_VERIF_DIR").unwrap_or_else(|_| "/verif".to_string())
}

#[derive(Clone, Copy, Debug, PartialEq, Eq)]
pub enum Tier {
    Quick,
    Thorough,
}

impl Tier {
    pub fn name(self) -> &'static str {
        match self {
            Tier::Quick => "quick",
            Tier::Thorough => "thorough",
        }
    }
    /// pick the quick or thorough value
    pub fn pick<T>(self, q: T, t: T) -> T {
        match self {
            Tier::Quick => q,
            Tier::Thorough => t,
        }
    }
}

/// A failed check: `sig` is a stable signature used for known-finding matching,
/// `msg` says what was expected and what was observed.
#[derive(Clone, Debug)]
pub struct Fail {
    pub sig: String,
    pub msg: String,
}

pub fn fail<T>(sig: &str, msg: String) -> Result<T, Fail> {
    Err(Fail { sig: sig.to_string(), msg })
}

#[macro_export]
macro_rules! ensure {
    ($cond:expr, $sig:expr, $($arg:tt)*) => {
        if !($cond) {
            return Err($crate::engine::Fail { sig: $sig.to_string(), msg: format!($($arg)*) });
        }
    };
}

#[derive(Clone, Debug)]
pub struct Failure {
    pub job: usize,
    pub case: Value,
    pub sig: String,
    pub msg: String,
    pub shrunk: bool,
}

#[derive(Default)]
pub struct LocalStats {
    pub evaluations: u64,
    pub nontrivial: HashSet<u64>,
    pub labels: BTreeMap<String, u64>,
    pub counters: BTreeMap<String, u64>,
    pub samples: Vec<(String, Value)>,
    pub excluded_known: BTreeMap<String, u64>,
}

const MAX_SAMPLES_PER_LABEL_PER_JOB: usize = 1;

/// Observation sink handed to every check.
pub struct Obs<'a> {
    local: &'a RefCell<LocalStats>,
    counting: bool,
}

impl<'a> Obs<'a> {
    pub fn new(local: &'a RefCell<LocalStats>) -> Obs<'a> {
        Obs { local, counting: true }
    }
    pub fn eval(&mut self) {
        if self.counting {
            self.local.borrow_mut().evaluations += 1;
        }
    }
    pub fn label(&mut self, l: &str) {
        if self.counting {
            *self.local.borrow_mut().labels.entry(l.to_string()).or_insert(0) += 1;
        }
    }
    pub fn count(&mut self, c: &str, by: u64) {
        if self.counting {
            *self.local.borrow_mut().counters.entry(c.to_string()).or_insert(0) += by;
        }
    }
    /// register a non-trivial case by its 64-bit hash
    pub fn nontrivial(&mut self, h: u64) {
        if self.counting {
            self.local.borrow_mut().nontrivial.insert(h);
        }
    }
    /// offer a sample for the given class; kept if the job has none for it yet
    pub fn sample(&mut self, class: &str, make: impl FnOnce() -> Value) {
        if !self.counting {
            return;
        }
        let mut l = self.local.borrow_mut();
        let have = l.samples.iter().filter(|(c, _)| c == class).count();
        if have < MAX_SAMPLES_PER_LABEL_PER_JOB {
            let mut v = make();
            abbreviate(&mut v);
            l.samples.push((class.to_string(), v));
        }
    }
}

/// evidence samples are illustrations: strings longer than 400 characters are cut (replay files keep everything)
fn abbreviate(v: &mut Value) {
    match v {
        Value::String(s) if s.chars().count() > 400 => {
            let head: String = s.chars().take(200).collect();
            *s = format!("{}…(+{} characters)", head, s.chars().count() - 200);
        }
        Value::Array(a) => a.iter_mut().for_each(abbreviate),
        Value::Object(o) => o.values_mut().for_each(abbreviate),
        _ => {}
    }
}

pub struct JobCtx<'e> {
    pub engine: &'e Engine,
    pub job: usize,
    pub local: RefCell<LocalStats>,
    pub failures: RefCell<Vec<Failure>>,
}

pub type Job<'a> = Box<dyn FnOnce(&mut JobCtx) + Send + 'a>;

pub struct Known {
    pub sig: String,
    pub text: String,
}

pub struct Engine {
    pub id: &'static str,
    pub tier: Tier,
    pub seed: u64,
    pub level: &'static str,
    start: Instant,
    global: Mutex<LocalStats>,
    job_samples: Mutex<Vec<(usize, String, Value)>>,
    failures: Mutex<Vec<Failure>>,
    pub known: Vec<Known>,
    known_hit: Mutex<BTreeMap<String, u64>>,
    jobs_run: AtomicUsize,
    pub extra: Mutex<Map<String, Value>>,
    pub rule: Mutex<String>,
    pub assumptions: Mutex<Vec<String>>,
    pub exhaustive: Mutex<Option<(bool, String)>>,
    pub stop: AtomicBool,
    /// lowest job index that recorded a failure; jobs with a higher index are skipped so that a failing run ends
    /// quickly while the lowest-index failure stays a deterministic function of tree and seed
    stop_after: AtomicUsize,
    pub max_shrink_iters: u32,
    watch: Vec<AtomicU64>,
    cur_case: Vec<Mutex<Option<Value>>>,
}

fn fnv(s: &str) -> u64 {
    let mut h: u64 = 0xcbf29ce484222325;
    for b in s.bytes() {
        h ^= b as u64;
        h = h.wrapping_mul(0x100000001b3);
    }
    h
}

pub fn splitmix(mut x: u64) -> u64 {
    x = x.wrapping_add(0x9E3779B97F4A7C15);
    let mut z = x;
    z = (z ^ (z >> 30)).wrapping_mul(0xBF58476D1CE4E5B9);
    z = (z ^ (z >> 27)).wrapping_mul(0x94D049BB133111EB);
    z ^ (z >> 31)
}

pub fn hash_bytes(data: &[u8]) -> u64 {
    let mut h: u64 = 0xcbf29ce484222325;
    for &b in data {
        h ^= b as u64;
        h = h.wrapping_mul(0x100000001b3);
    }
    splitmix(h)
}

pub fn hash_value(v: &Value) -> u64 {
    hash_bytes(v.to_string().as_bytes())
}

pub fn hex(data: &[u8]) -> String {
    let mut s = String::with_capacity(data.len() * 2);
    for b in data {
        s.push_str(&format!("{:02x}", b));
    }
    s
}

pub fn unhex(s: &str) -> Option<Vec<u8>> {
    if s.len() % 2 != 0 {
        return None;
    }
    (0..s.len() / 2).map(|i| u8::from_str_radix(&s[2 * i..2 * i + 2], 16).ok()).collect()
}

thread_local! {
    static LAST_PANIC: RefCell<Option<String>> = RefCell::new(None);
    static WORKER: RefCell<usize> = RefCell::new(usize::MAX);
}

pub fn install_panic_hook() {
    panic::set_hook(Box::new(|info| {
        let msg = if let Some(s) = info.payload().downcast_ref::<&str>() {
            s.to_string()
        } else if let Some(s) = info.payload().downcast_ref::<String>() {
            s.clone()
        } else {
            "<non-string panic>".to_string()
        };
        let loc = info
            .location()
            .map(|l| format!("{}:{}", l.file(), l.line()))
            .unwrap_or_else(|| "<unknown>".into());
        LAST_PANIC.with(|p| *p.borrow_mut() = Some(format!("{} at {}", msg, loc)));
    }));
}

/// Run `f`, turning a panic into Err("message at file:line").
pub fn catch<T>(f: impl FnOnce() -> T) -> Result<T, String> {
    LAST_PANIC.with(|p| *p.borrow_mut() = None);
    match panic::catch_unwind(AssertUnwindSafe(f)) {
        Ok(v) => Ok(v),
        Err(_) => Err(LAST_PANIC.with(|p| p.borrow_mut().take()).unwrap_or_else(|| "<panic>".into())),
    }
}

/// Location-only signature of a panic message produced by `catch`
pub fn panic_sig(msg: &str) -> String {
    match msg.rfind(" at ") {
        Some(i) => format!("panic@{}", &msg[i + 4..]),
        None => "panic".into(),
    }
}

impl Engine {
    pub fn new(id: &'static str, tier: Tier, seed: u64, level: &'static str) -> Engine {
        let known = load_known(id);
        Engine {
            id,
            tier,
            seed,
            level,
            start: Instant::now(),
            global: Mutex::new(LocalStats::default()),
            job_samples: Mutex::new(Vec::new()),
            failures: Mutex::new(Vec::new()),
            known,
            known_hit: Mutex::new(BTreeMap::new()),
            jobs_run: AtomicUsize::new(0),
            extra: Mutex::new(Map::new()),
            rule: Mutex::new(String::new()),
            assumptions: Mutex::new(Vec::new()),
            exhaustive: Mutex::new(None),
            stop: AtomicBool::new(false),
            stop_after: AtomicUsize::new(usize::MAX),
            max_shrink_iters: 1200,
            watch: (0..64).map(|_| AtomicU64::new(0)).collect(),
            cur_case: (0..64).map(|_| Mutex::new(None)).collect(),
        }
    }

    pub fn set_rule(&self, r: &str) {
        *self.rule.lock().unwrap() = r.to_string();
    }
    /// parts added later (kept as a separate paragraph of the rule text)
    pub fn extend_rule(&self, r: &str) {
        let mut g = self.rule.lock().unwrap();
        g.push_str(" ADDED AFTER THE SEEDED ROUNDS (DESIGN.md 11.5; every part is labelled part:* in the class counts): ");
        g.push_str(r);
    }
    pub fn assume(&self, a: &str) {
        self.assumptions.lock().unwrap().push(a.to_string());
    }
    pub fn set_exhaustive(&self, yes: bool, over: &str) {
        *self.exhaustive.lock().unwrap() = Some((yes, over.to_string()));
    }
    pub fn put(&self, key: &str, v: Value) {
        self.extra.lock().unwrap().insert(key.to_string(), v);
    }

    pub fn job_seed(&self, job: usize, salt: u64) -> [u8; 32] {
        let base = splitmix(self.seed ^ fnv(self.id)) ^ splitmix(job as u64 ^ (salt << 32));
        let mut out = [0u8; 32];
        let mut x = base;
        for i in 0..4 {
            x = splitmix(x);
            out[i * 8..i * 8 + 8].copy_from_slice(&x.to_le_bytes());
        }
        out
    }

    fn is_known(&self, sig: &str) -> bool {
        self.known.iter().any(|k| k.sig == sig)
    }

    /// Run jobs on all cores. Jobs are independent and individually seeded, so the result does not
    /// depend on which thread runs which job.
    pub fn par<'a>(&'a self, jobs: Vec<Job<'a>>) {
        let n = jobs.len();
        let threads = std::thread::available_parallelism().map(|x| x.get()).unwrap_or(8).min(16).min(n.max(1));
        let base = self.jobs_run.fetch_add(n, Ordering::SeqCst);
        let slots: Vec<Mutex<Option<Job<'a>>>> = jobs.into_iter().map(|j| Mutex::new(Some(j))).collect();
        let next = AtomicUsize::new(0);
        std::thread::scope(|s| {
            for w in 0..threads {
                let slots = &slots;
                let next = &next;
                std::thread::Builder::new()
                    .stack_size(64 << 20)
                    .spawn_scoped(s, move || {
                        WORKER.with(|x| *x.borrow_mut() = w);
                        loop {
                            // jobs are scheduled from the last to the first: callers list cheap / small jobs first (so
                            // that the lowest-index failure is a small case) and the expensive ones start first
                            let k = next.fetch_add(1, Ordering::SeqCst);
                            if k >= n {
                                break;
                            }
                            let i = n - 1 - k;
                            let job = slots[i].lock().unwrap().take().unwrap();
                            let mut jc = JobCtx {
                                engine: self,
                                job: base + i,
                                local: RefCell::new(LocalStats::default()),
                                failures: RefCell::new(Vec::new()),
                            };
                            self.watch[w].store(now_ms(), Ordering::Relaxed);
                            let r = catch(|| job(&mut jc));
                            self.watch[w].store(0, Ordering::Relaxed);
                            if let Err(p) = r {
                                // a panic outside any fast_qr call is a harness defect
                                eprintln!("HARNESS-PANIC property={} job={} {}", self.id, base + i, p);
                                std::process::exit(2);
                            }
                            self.merge(jc);
                        }
                    })
                    .unwrap();
            }
        });
    }

    fn merge(&self, jc: JobCtx) {
        let l = jc.local.into_inner();
        let mut g = self.global.lock().unwrap();
        g.evaluations += l.evaluations;
        g.nontrivial.extend(l.nontrivial);
        for (k, v) in l.labels {
            *g.labels.entry(k).or_insert(0) += v;
        }
        for (k, v) in l.counters {
            *g.counters.entry(k).or_insert(0) += v;
        }
        for (k, v) in l.excluded_known {
            *g.excluded_known.entry(k).or_insert(0) += v;
        }
        drop(g);
        let mut js = self.job_samples.lock().unwrap();
        for (c, v) in l.samples {
            js.push((jc.job, c, v));
        }
        drop(js);
        let mut f = self.failures.lock().unwrap();
        f.extend(jc.failures.into_inner());
    }

    pub fn failure_count(&self) -> usize {
        self.failures.lock().unwrap().len()
    }

    /// Add to a global counter outside of a job
    pub fn add_counter(&self, c: &str, by: u64) {
        *self.global.lock().unwrap().counters.entry(c.to_string()).or_insert(0) += by;
    }

    /// Finish: write replays and evidence, print VIOLATION / KNOWN-FINDING lines, return exit code.
    pub fn finish(&self) -> i32 {
        let wall = self.start.elapsed().as_secs_f64();
        let g = self.global.lock().unwrap();
        let mut failures = self.failures.lock().unwrap().clone();
        failures.sort_by_key(|f| f.job);
        // dedupe by case
        let mut seen = HashSet::new();
        failures.retain(|f| seen.insert(hash_value(&f.case)));
        let mut replay_paths = Vec::new();
        for f in failures.iter().take(8) {
            if f.case.get("__regress_path").is_some() {
                let p = f.case["__regress_path"].as_str().unwrap().to_string();
                println!("VIOLATION property={} replay={}", self.id, p);
                println!("  detail: {}", truncate(&f.msg, 600));
                replay_paths.push(p);
                continue;
            }
            let dir = format!("{}/replays/{}", verif_dir(), self.id);
            let _ = std::fs::create_dir_all(&dir);
            let path = format!("{}/{:016x}.json", dir, hash_value(&f.case));
            let doc = json!({
                "property": self.id,
                "format": 1,
                "case": f.case,
                "signature": f.sig,
                "observed": f.msg,
                "shrunk": f.shrunk,
                "seed": self.seed,
                "tier": self.tier.name(),
                // true: found by the pass over fast_qr compiled WITHOUT --cfg fast_qr_verif (check.sh replays it there)
                "plain_build": cfg!(fqv_plain),
            });
            let _ = std::fs::write(&path, serde_json::to_string_pretty(&doc).unwrap());
            println!("VIOLATION property={} replay={}", self.id, path);
            println!("  detail: {}", truncate(&f.msg, 600));
            replay_paths.push(path);
        }
        for (sig, n) in g.excluded_known.iter() {
            let text = self.known.iter().find(|k| &k.sig == sig).map(|k| k.text.clone()).unwrap_or_default();
            println!("KNOWN-FINDING: property={} sig={} {} (excluded {} cases)", self.id, sig, text, n);
        }
        // samples: deterministic selection
        let mut js = self.job_samples.lock().unwrap().clone();
        js.sort_by(|a, b| (a.0, &a.1).cmp(&(b.0, &b.1)));
        let mut per_class: BTreeMap<String, usize> = BTreeMap::new();
        let mut samples = Vec::new();
        for (_, c, v) in js.into_iter() {
            let k = per_class.entry(c.clone()).or_insert(0);
            if *k < 2 && samples.len() < 40 {
                *k += 1;
                samples.push(json!({"class": c, "case": v}));
            }
        }
        if samples.is_empty() {
            // a run that stopped at its very first case (a violation in a regress replay) has sampled nothing: the
            // evidence then names the replay files instead
            samples.push(json!({"class": "run_stopped_early", "case": {"replays": replay_paths.clone()}}));
        }
        let mut cov = Map::new();
        cov.insert("evaluations".into(), json!(g.evaluations));
        cov.insert("distinct_nontrivial".into(), json!(g.nontrivial.len()));
        cov.insert("rule".into(), json!(self.rule.lock().unwrap().clone()));
        cov.insert("samples".into(), Value::Array(samples));
        cov.insert("labels".into(), json!(g.labels));
        cov.insert("counters".into(), json!(g.counters));
        let excl: u64 = g.excluded_known.values().sum();
        cov.insert("excluded_known".into(), json!(excl));
        if let Some((yes, over)) = self.exhaustive.lock().unwrap().clone() {
            cov.insert("exhaustive".into(), json!(yes));
            cov.insert("exhaustive_over".into(), json!(over));
        }
        for (k, v) in self.extra.lock().unwrap().iter() {
            cov.insert(k.clone(), v.clone());
        }
        if !replay_paths.is_empty() {
            cov.insert("replays".into(), json!(replay_paths));
        }
        let ev = json!({
            "property_id": self.id,
            "tier": self.tier.name(),
            "seed": self.seed,
            "level": self.level,
            "coverage": Value::Object(cov),
            "assumptions": self.assumptions.lock().unwrap().clone(),
            "wall_s": (wall * 1000.0).round() / 1000.0,
            "violations": failures.len(),
        });
        // The pass over fast_qr compiled without the verification flag (binary built with --cfg fqv_plain) leaves a
        // summary for the main pass, which runs right after it and embeds it in the evidence file.
        let plain_dir = format!("{}/harness/plain_pass", verif_dir());
        let plain_path = format!("{}/{}.json", plain_dir, self.id);
        let mut ev = ev;
        if cfg!(fqv_plain) {
            let _ = std::fs::create_dir_all(&plain_dir);
            let summary = json!({
                "what": "the same generated cases run against fast_qr compiled WITHOUT --cfg fast_qr_verif (no hooks): what the checks decide must not depend on the flag their hooks are guarded by",
                "seed": self.seed,
                "size": self.tier.name(),
                "evaluations": g.evaluations,
                "distinct_nontrivial": g.nontrivial.len(),
                "violations": failures.len(),
                "wall_s": (wall * 1000.0).round() / 1000.0,
            });
            std::fs::write(&plain_path, serde_json::to_string_pretty(&summary).unwrap()).expect("write plain-pass summary");
        } else {
            if let Ok(text) = std::fs::read_to_string(&plain_path) {
                if let Ok(v) = serde_json::from_str::<Value>(&text) {
                    if v.get("seed").and_then(|s| s.as_u64()) == Some(self.seed) {
                        ev["coverage"]["plain_build_pass"] = v;
                    }
                }
                let _ = std::fs::remove_file(&plain_path);
            }
            let dir = format!("{}/evidence", verif_dir());
            let _ = std::fs::create_dir_all(&dir);
            let path = format!("{}/{}.json", dir, self.id);
            let tmp = format!("{}.tmp", path);
            std::fs::write(&tmp, serde_json::to_string_pretty(&ev).unwrap()).expect("write evidence");
            std::fs::rename(&tmp, &path).expect("rename evidence");
        }
        println!(
            "{}{} {} seed={} evaluations={} distinct_nontrivial={} violations={} known_excluded={} wall={:.1}s",
            if cfg!(fqv_plain) { "[fast_qr without the verification flag] " } else { "" },
            self.id,
            self.tier.name(),
            self.seed,
            g.evaluations,
            g.nontrivial.len(),
            failures.len(),
            excl,
            wall
        );
        if failures.is_empty() {
            0
        } else {
            1
        }
    }
}

fn truncate(s: &str, n: usize) -> String {
    if s.len() <= n {
        s.to_string()
    } else {
        let mut end = n;
        while !s.is_char_boundary(end) {
            end -= 1;
        }
        format!("{}…", &s[..end])
    }
}

fn now_ms() -> u64 {
    use std::time::{SystemTime, UNIX_EPOCH};
    SystemTime::now().duration_since(UNIX_EPOCH).map(|d| d.as_millis() as u64).unwrap_or(1)
}

impl Engine {
    /// Watchdog: a job that makes no progress for `limit_s` aborts the run as INCONCLUSIVE (exit 2).
    /// Checks call `tick()` at the start of every case.
    pub fn start_watchdog(&'static self, limit_s: u64, on_timeout: fn(&Engine, &[Value])) {
        std::thread::spawn(move || loop {
            std::thread::sleep(std::time::Duration::from_millis(1000));
            let now = now_ms();
            let mut hung = Vec::new();
            for (i, w) in self.watch.iter().enumerate() {
                let t = w.load(Ordering::Relaxed);
                if t != 0 && now.saturating_sub(t) > limit_s * 1000 {
                    hung.push(self.cur_case[i].lock().unwrap().clone().unwrap_or(Value::Null));
                }
            }
            if !hung.is_empty() {
                on_timeout(self, &hung);
            }
        });
    }

    /// remember the case the current worker is about to execute (used by the C10 hang handler)
    pub fn set_current_case(&self, v: Value) {
        let w = WORKER.with(|x| *x.borrow());
        if w < self.cur_case.len() {
            *self.cur_case[w].lock().unwrap() = Some(v);
        }
    }

    pub fn tick(&self) {
        let w = WORKER.with(|x| *x.borrow());
        if w < self.watch.len() {
            self.watch[w].store(now_ms(), Ordering::Relaxed);
        }
    }
}

pub fn default_timeout(e: &Engine, _hung: &[Value]) {
    println!("INCONCLUSIVE property={} a case exceeded the watchdog limit (resource problem, not a violation)", e.id);
    std::process::exit(2);
}

impl<'e> JobCtx<'e> {
    pub fn obs(&self) -> Obs<'_> {
        Obs { local: &self.local, counting: true }
    }

    fn skipped(&self) -> bool {
        self.job > self.engine.stop_after.load(Ordering::Relaxed)
    }

    fn record_failure(&self, case: Value, f: Fail, shrunk: bool) {
        self.engine.stop_after.fetch_min(self.job, Ordering::SeqCst);
        self.failures.borrow_mut().push(Failure { job: self.job, case, sig: f.sig, msg: f.msg, shrunk });
    }

    fn note_known(&self, sig: &str) {
        *self.local.borrow_mut().excluded_known.entry(sig.to_string()).or_insert(0) += 1;
    }

    /// Run one deterministic (enumerated) case.
    pub fn run_case<C>(&self, case: &C, to_json: impl Fn(&C) -> Value, check: impl Fn(&C, &mut Obs) -> Result<(), Fail>) {
        if self.skipped() || !self.failures.borrow().is_empty() {
            return;
        }
        self.engine.tick();
        let mut obs = self.obs();
        obs.eval();
        if let Err(f) = check(case, &mut obs) {
            if self.engine.is_known(&f.sig) {
                self.note_known(&f.sig);
            } else {
                self.record_failure(to_json(case), f, false);
            }
        }
    }

    /// Run `cases` generated cases from `strat` through `check`; on failure proptest shrinks and the
    /// minimal case is recorded. Returns true if no failure.
    pub fn run_prop<S>(
        &self,
        salt: u64,
        strat: &S,
        cases: u32,
        to_json: impl Fn(&S::Value) -> Value,
        check: impl Fn(&S::Value, &mut Obs) -> Result<(), Fail>,
    ) -> bool
    where
        S: Strategy,
    {
        if cases == 0 || self.skipped() || !self.failures.borrow().is_empty() {
            return true;
        }
        let cfg = Config {
            cases,
            failure_persistence: None,
            max_shrink_iters: self.engine.max_shrink_iters,
            max_local_rejects: 1_000_000,
            max_global_rejects: 1_000_000,
            ..Config::default()
        };
        let rng = TestRng::from_seed(RngAlgorithm::ChaCha, &self.engine.job_seed(self.job, salt));
        let mut runner = TestRunner::new_with_rng(cfg, rng);
        let failed = std::cell::Cell::new(false);
        let last_fail: RefCell<Option<Fail>> = RefCell::new(None);
        let res = runner.run(strat, |v| {
            self.engine.tick();
            if self.skipped() {
                // a lower-numbered job already holds a failure: finish (or stop shrinking) quickly
                return Ok(());
            }
            let mut obs = Obs { local: &self.local, counting: !failed.get() };
            obs.eval();
            match check(&v, &mut obs) {
                Ok(()) => Ok(()),
                Err(f) => {
                    if self.engine.is_known(&f.sig) {
                        if !failed.get() {
                            self.note_known(&f.sig);
                        }
                        Ok(())
                    } else {
                        failed.set(true);
                        let msg = f.msg.clone();
                        *last_fail.borrow_mut() = Some(f);
                        Err(TestCaseError::fail(msg))
                    }
                }
            }
        });
        match res {
            Ok(()) => true,
            Err(TestError::Fail(reason, value)) => {
                // re-evaluate the minimal value to get its own signature/message
                let mut obs = Obs { local: &self.local, counting: false };
                let f = match check(&value, &mut obs) {
                    Err(f) => f,
                    Ok(()) => last_fail
                        .borrow_mut()
                        .take()
                        .unwrap_or(Fail { sig: "unknown".into(), msg: reason.message().to_string() }),
                };
                self.record_failure(to_json(&value), f, true);
                false
            }
            Err(TestError::Abort(reason)) => {
                eprintln!("HARNESS-ABORT property={} job={} {}", self.engine.id, self.job, reason.message());
                std::process::exit(2);
            }
        }
    }
}

pub fn load_known(id: &str) -> Vec<Known> {
    let path = format!("{}/KNOWN_FINDINGS.txt", verif_dir());
    let mut out = Vec::new();
    if let Ok(text) = std::fs::read_to_string(&path) {
        for line in text.lines() {
            let line = line.trim();
            if !line.starts_with("known:") {
                continue;
            }
            let rest = line["known:".len()..].trim();
            let mut prop = "";
            let mut sig = "";
            let mut tail_start = 0;
            for (i, tok) in rest.split_whitespace().enumerate() {
                if let Some(p) = tok.strip_prefix("property=") {
                    prop = p;
                } else if let Some(s) = tok.strip_prefix("sig=") {
                    sig = s;
                } else if i >= 2 {
                    tail_start = rest.find(tok).unwrap_or(0);
                    break;
                }
            }
            if prop == id && !sig.is_empty() {
                out.push(Known { sig: sig.to_string(), text: rest[tail_start..].to_string() });
            }
        }
    }
    out
}

/// Replay all committed regression cases of a property through `replay`; failures are recorded
/// as violations pointing at the regress file.
pub fn run_regress(e: &Engine, replay: &(dyn Fn(&Value, &mut Obs) -> Result<(), Fail> + Sync)) {
    let dir = format!("{}/regress/{}", verif_dir(), e.id);
    let mut files: Vec<String> = match std::fs::read_dir(&dir) {
        Ok(rd) => rd
            .filter_map(|x| x.ok())
            .map(|x| x.path().to_string_lossy().to_string())
            .filter(|p| p.ends_with(".json"))
            .collect(),
        Err(_) => return,
    };
    files.sort();
    let n = files.len() as u64;
    let files = &files;
    e.par(vec![Box::new(move |jc: &mut JobCtx| {
        for p in files {
            let text = std::fs::read_to_string(p).expect("read regress file");
            let doc: Value = serde_json::from_str(&text).expect("parse regress file");
            let case = doc["case"].clone();
            jc.run_case(
                &case,
                |_| json!({"__regress_path": p, "case": doc["case"]}),
                |c, o| {
                    o.label("regress_replay");
                    replay(c, o)
                },
            );
        }
    })]);
    e.add_counter("regress_files_replayed", n);
}
