//! Byte string -> structured case decoders for the libFuzzer targets (and for the corpus replay that the
//! proptest tiers run over /verif/fuzz/seeds). Hand-written data provider: every decoder is total (any byte
//! string gives a case inside the property's domain) and short inputs give small cases, so libFuzzer's
//! mutations move through the structured space instead of dying in input validation.

use crate::fq::{BuildCase, Opts};
use crate::props::{c12, c13, c14, c18};
#[cfg(fast_qr_verif)]
use crate::props::{c07, c17};
use crate::svgcase::{ColorSpec, SvgCfg};
use refmodel::tables::*;

pub struct Cur<'a> {
    d: &'a [u8],
    i: usize,
}

impl<'a> Cur<'a> {
    pub fn new(d: &'a [u8]) -> Self {
        Cur { d, i: 0 }
    }
    pub fn u8(&mut self) -> u8 {
        let b = self.d.get(self.i).copied().unwrap_or(0);
        self.i += 1;
        b
    }
    pub fn has(&self) -> bool {
        self.i < self.d.len()
    }
    pub fn u16(&mut self) -> u16 {
        let a = self.u8() as u16;
        let b = self.u8() as u16;
        a << 8 | b
    }
    pub fn below(&mut self, n: usize) -> usize {
        if n <= 1 {
            return 0;
        }
        if n <= 256 {
            (self.u8() as usize * n) >> 8
        } else {
            (self.u16() as usize * n) >> 16
        }
    }
    pub fn take(&mut self, n: usize) -> &'a [u8] {
        let s = self.i.min(self.d.len());
        let e = (self.i + n).min(self.d.len());
        self.i += n;
        &self.d[s..e]
    }
    pub fn rest(&mut self) -> &'a [u8] {
        let s = self.i.min(self.d.len());
        self.i = self.d.len();
        &self.d[s..]
    }
}

fn to_alphabet(mode: Mode, raw: &[u8]) -> Vec<u8> {
    match mode {
        Mode::Numeric => raw.iter().map(|&b| b'0' + ((b as usize * 10) >> 8) as u8).collect(),
        Mode::Alphanumeric => raw.iter().map(|&b| ALNUM_SET[(b as usize * 45) >> 8]).collect(),
        Mode::Byte => raw.to_vec(),
    }
}

const REPS: [usize; 16] = [1, 1, 1, 1, 1, 1, 1, 1, 2, 3, 4, 7, 16, 40, 100, 300];

/// Header: [mode selector, level selector, version selector, mask selector, repetition/trim selector], then payload.
/// mode selector (mod 10; 9 = steered matrix, see `steered_build_case`): 0 automatic over raw bytes, 1 automatic over digits, 2 automatic over the 45-set,
/// 3 forced Numeric, 4 forced Alphanumeric, 5 forced Byte, 6 forced Alphanumeric over digits, 7 forced Byte over
/// digits, 8 forced Byte over the 45-set. A forced mode therefore only ever sees input inside its alphabet.
pub fn build_case(data: &[u8]) -> (BuildCase, &'static str) {
    let mut c = Cur::new(data);
    let ms = c.u8() % 10;
    if ms == 9 {
        return steered_build_case(&mut c);
    }
    let ls_raw = c.u8();
    let ls = ls_raw % 5;
    // the upper part of the level byte selects the history: related predecessor build / reuse of a warmed-up builder
    let hs = (ls_raw / 5) as u16;
    let vs = c.u8();
    let ks = c.u8();
    let rs = c.u8();
    let raw = c.rest();
    let (mode, class, fam): (Option<Mode>, Mode, &'static str) = match ms {
        0 => (None, Mode::Byte, "fuzz:auto_raw"),
        1 => (None, Mode::Numeric, "fuzz:auto_digits"),
        2 => (None, Mode::Alphanumeric, "fuzz:auto_alnum"),
        3 => (Some(Mode::Numeric), Mode::Numeric, "fuzz:forced_numeric"),
        4 => (Some(Mode::Alphanumeric), Mode::Alphanumeric, "fuzz:forced_alnum"),
        5 => (Some(Mode::Byte), Mode::Byte, "fuzz:forced_byte"),
        6 => (Some(Mode::Alphanumeric), Mode::Numeric, "fuzz:forced_alnum_digits"),
        7 => (Some(Mode::Byte), Mode::Numeric, "fuzz:forced_byte_digits"),
        _ => (Some(Mode::Byte), Mode::Alphanumeric, "fuzz:forced_byte_alnum"),
    };
    let level = if ls == 0 { None } else { Some(Level::from_index(ls as usize - 1)) };
    let version = if (1..=40).contains(&vs) { Some(vs as usize) } else { None };
    let mask = if ks < 8 { Some(ks) } else { None };
    let rep = REPS[(rs & 15) as usize];
    let mut input = to_alphabet(class, raw);
    if rep > 1 && !input.is_empty() {
        let unit = input.clone();
        while input.len() < unit.len() * rep && input.len() < 8000 {
            input.extend_from_slice(&unit);
        }
        input.truncate(8000);
        // trim a few characters so that every residue / boundary offset is reachable
        let trim = (rs >> 4) as usize;
        let keep = input.len().saturating_sub(trim).max(1);
        input.truncate(keep);
    }
    let sel = (hs % 16) << 12 | ((vs as u16 ^ (ks as u16) << 3 ^ (rs as u16) << 5) & 0x3ff) << 2 | if hs >= 32 { 0 } else { 1 };
    (BuildCase::new(input, Opts { mode, level, version, mask }).with_warm_sel(sel), fam)
}

fn color(c: &mut Cur) -> ColorSpec {
    match c.u8() % 6 {
        0 | 1 => ColorSpec::Rgb([c.u8(), c.u8(), c.u8()]),
        2 => ColorSpec::Rgba([c.u8(), c.u8(), c.u8(), c.u8()]),
        3 => ColorSpec::Rgba([c.u8(), c.u8(), c.u8(), 255]),
        4 => ColorSpec::Rgba([c.u8(), c.u8(), c.u8(), 0]),
        _ => ColorSpec::Css(["red", "rgb(10, 20, 30)", "#abc", "currentColor", "none", "transparent"][c.below(6)].to_string()),
    }
}

/// Strings for image references: printable ASCII plus a few multi-byte characters; XML-special characters arise
/// naturally from the byte values. Control characters are mapped away (XML cannot carry them).
fn text(c: &mut Cur, max: usize) -> String {
    let n = c.below(max + 1);
    let mut s = String::new();
    for &b in c.take(n) {
        match b {
            0x20..=0x7E => s.push(b as char),
            0x00..=0x1F => s.push(['&', '<', '>', '"', '\'', ' ', '/', ':', '?', '=', '#', '%', ';', '\\', ']', '-'][(b & 15) as usize]),
            0x7F => s.push('~'),
            0x80..=0xBF => s.push(['é', 'ü', '中', 'ß'][(b & 3) as usize]),
            _ => s.push(['🚀', 'Ω', '文', 'ñ'][(b & 3) as usize]),
        }
    }
    s
}

fn real(c: &mut Cur, scale: f64) -> f64 {
    let k = c.u8();
    match k % 4 {
        0 => c.below(64) as f64 * scale / 16.0,
        1 => c.below(128) as f64 * scale / 64.0 + 0.5,
        2 => c.u16() as f64 * scale / 16384.0,
        _ => (c.below(40) as f64) * scale / 8.0 + 0.25,
    }
}

pub fn svg_cfg(c: &mut Cur, with_image: bool) -> SvgCfg {
    let mut cfg = SvgCfg::default();
    let flags = c.u8();
    if flags & 1 != 0 {
        cfg.margin = Some(c.below(17));
    }
    let nl = (flags >> 1 & 3) as usize;
    for _ in 0..nl {
        let si = c.below(6);
        let col = if c.u8() & 1 == 0 { None } else { Some(color(c)) };
        cfg.layers.push((si, col));
    }
    if flags & 8 != 0 {
        cfg.module_color = Some(color(c));
    }
    if flags & 16 != 0 {
        cfg.background = Some(color(c));
    }
    if with_image && flags & 32 != 0 {
        let f2 = c.u8();
        cfg.image = Some(match f2 & 3 {
            0 => "https://example.com/i?x=1&y=2".to_string(),
            1 => format!("data:image/png;base64,{}", text(c, 24)),
            _ => text(c, 40),
        });
        if f2 & 4 != 0 {
            cfg.image_bg_color = Some(color(c));
        }
        if f2 & 8 != 0 {
            cfg.image_bg_shape = Some(c.below(3));
        }
    }
    cfg
}

/// small symbols (V1..V10) for renderer targets: [version selector, level, mask] + payload bytes
fn small_build(c: &mut Cur) -> BuildCase {
    let vs = c.u8();
    let version = 1 + (vs as usize % 10);
    let level = Level::from_index((c.u8() % 4) as usize);
    let ks = c.u8();
    let mask = if ks % 9 < 8 { Some(ks % 9) } else { None };
    let cap = capacity(version, level, Mode::Byte);
    let n = c.below(cap + 1).min(24);
    let input = c.take(n).to_vec();
    BuildCase::new(input, Opts { mode: Some(Mode::Byte), level: Some(level), version: Some(version), mask })
}

pub fn svg_case(data: &[u8]) -> c12::Case {
    let mut c = Cur::new(data);
    let build = small_build(&mut c);
    let cfg = svg_cfg(&mut c, true);
    c12::Case { build, cfg }
}

pub fn raster_case(data: &[u8]) -> c13::Case {
    let mut c = Cur::new(data);
    let mut build = small_build(&mut c);
    // keep rasters cheap: V1..V4
    if let Some(v) = build.opts.version {
        let v2 = (v - 1) % 4 + 1;
        build.opts.version = Some(v2);
        let cap = capacity(v2, build.opts.level.unwrap_or(Level::Q), Mode::Byte);
        build.input.truncate(cap);
    }
    let mut cfg = svg_cfg(&mut c, false);
    // the raster oracle needs concrete opaque module colours and at most one layer
    cfg.layers.truncate(1);
    if let Some((_, col)) = cfg.layers.first_mut() {
        *col = None;
    }
    cfg.module_color = cfg.module_color.and_then(|m| m.rgba()).map(|m| ColorSpec::Rgb([m[0], m[1], m[2]]));
    cfg.background = cfg.background.and_then(|b| b.rgba()).map(|b| if b[3] == 0 || b[3] == 255 { ColorSpec::Rgba(b) } else { ColorSpec::Rgb([b[0], b[1], b[2]]) });
    let side = (17 + 4 * build.opts.version.unwrap_or(1) + 2 * cfg.margin_eff()) as u32;
    let fit = match c.u8() % 6 {
        0 => c13::Fit::Original,
        1 => c13::Fit::Width(side * (1 + c.below(5) as u32)),
        2 => c13::Fit::Width(side * 4 + c.below(200) as u32),
        3 => c13::Fit::Height(side * 4 + c.below(200) as u32),
        4 => c13::Fit::Both(side * 4 + c.below(200) as u32, side * 4 + c.below(200) as u32),
        _ => c13::Fit::Height(side * (1 + c.below(5) as u32)),
    };
    let fit_order = c.u8() % 4;
    c13::Case { build, cfg, fit, fit_order, pre_fits: Vec::new() }
}

pub fn frame_case(data: &[u8]) -> c18::Case {
    let mut c = Cur::new(data);
    let version = 1 + c.below(40);
    let flags = c.u8();
    let mut cfg = SvgCfg::default();
    if flags & 1 != 0 {
        cfg.margin = Some(c.below(17));
    }
    cfg.image = Some("logo.png".to_string());
    cfg.image_bg_shape = Some(c.below(3));
    let size = (17 + 4 * version) as f64;
    if flags & 2 != 0 {
        // s in (0.5, 0.6*size)
        let s = 0.5 + real(&mut c, 1.0).min(63.0) / 64.0 * (0.6 * size - 0.5);
        cfg.image_size = Some(s.max(0.51));
    }
    if flags & 4 != 0 {
        cfg.image_gap = Some(real(&mut c, 1.0).min(6.0));
    }
    if flags & 8 != 0 {
        let total = size + 2.0 * cfg.margin_eff() as f64;
        let x = (c.u16() as f64 / 65535.0) * total;
        let y = (c.u16() as f64 / 65535.0) * total;
        let q = |v: f64| if flags & 16 != 0 { (v * 2.0).round() / 2.0 } else { v };
        cfg.image_position = Some((q(x), q(y)));
    }
    c18::Case { version, cfg }
}

fn color_string(c: &mut Cur) -> String {
    match c.u8() % 8 {
        0 | 1 => format!("#{:02x}{:02x}{:02x}", c.u8(), c.u8(), c.u8()),
        2 => format!("#{:02X}{:02x}{:02X}{:02x}", c.u8(), c.u8(), c.u8(), c.u8()),
        3 => format!("{:02x}{:02x}{:02x}", c.u8(), c.u8(), c.u8()),
        4 => ["red", "#fff", "#12345", "#gggggg", "", "#", "#1é2233", "#00000é", "🚀🚀", "0x112233", "#112233 "][c.below(11)].to_string(),
        _ => {
            let mut s = if c.u8() & 1 == 0 { "#".to_string() } else { String::new() };
            s.push_str(&text(c, 10));
            s
        }
    }
}

fn wild_f64(c: &mut Cur) -> f64 {
    match c.u8() % 8 {
        0 | 1 | 2 => c.below(200) as f64 / 4.0,
        3 => (c.u16() as i32 - 32768) as f64 / 8.0,
        4 => [0.0, -0.0, f64::NAN, f64::INFINITY, f64::NEG_INFINITY, 1e300, -1e300, f64::MIN_POSITIVE][c.below(8)],
        5 => c.below(40) as f64,
        _ => f64::from_bits((c.u16() as u64) << 48 | (c.u16() as u64) << 32 | (c.u16() as u64) << 16 | c.u16() as u64),
    }
}

#[cfg(fast_qr_verif)]
pub fn wasm_case(data: &[u8]) -> c17::Case {
    let mut c = Cur::new(data);
    let nops = c.below(11);
    let mut ops = Vec::new();
    for _ in 0..nops {
        ops.push(match c.u8() % 11 {
            0 => c17::WOp::Shape(c.below(6)),
            1 => c17::WOp::Margin(c.below(65)),
            2 => c17::WOp::Ecl(Level::from_index(c.below(4))),
            3 => c17::WOp::Version(1 + c.below(40)),
            4 => c17::WOp::Image(text(&mut c, 30)),
            5 => c17::WOp::ImageSize(wild_f64(&mut c), wild_f64(&mut c)),
            6 => {
                let n = [2, 2, 2, 0, 1, 3, 4, 2][c.below(8)];
                c17::WOp::ImagePosition((0..n).map(|_| wild_f64(&mut c)).collect())
            }
            7 => c17::WOp::ImageBgShape(c.below(3)),
            8 => c17::WOp::ModuleColor(color_string(&mut c)),
            9 => c17::WOp::BackgroundColor(color_string(&mut c)),
            _ => c17::WOp::ImageBgColor(color_string(&mut c)),
        });
    }
    let kind = c.u8();
    let rep = REPS[(c.u8() & 15) as usize];
    let raw = c.rest();
    let unit: String = match kind % 4 {
        0 => raw.iter().map(|&b| (b'0' + ((b as usize * 10) >> 8) as u8) as char).collect(),
        1 => raw.iter().map(|&b| ALNUM_SET[(b as usize * 45) >> 8] as char).collect(),
        2 => String::from_utf8_lossy(raw).into_owned(),
        _ => raw.iter().map(|&b| (32 + (b as usize * 95 >> 8)) as u8 as char).collect(),
    };
    let mut content = unit.clone();
    while rep > 1 && !unit.is_empty() && content.len() < unit.len() * rep && content.len() < 8000 {
        content.push_str(&unit);
    }
    c17::Case { content, ops }
}

#[cfg(fast_qr_verif)]
pub fn division_case(data: &[u8]) -> c07::Case {
    let mut c = Cur::new(data);
    let version = 1 + c.below(40);
    let level = Level::from_index(c.below(4));
    let lay = layout(version, level);
    let pick_long = c.u8() & 1 == 1;
    let len = if pick_long && lay.long_blocks > 0 { lay.long_data } else { lay.short_data };
    let mut data: Vec<u8> = c.rest().to_vec();
    data.resize(len, 0);
    c07::Case { version, level, data, fam: "fuzz" }
}

pub fn history_case(data: &[u8]) -> c14::History {
    let mut c = Cur::new(data);
    let n_in = c.below(40);
    let kind = c.u8() % 3;
    let class = [Mode::Numeric, Mode::Alphanumeric, Mode::Byte][kind as usize];
    let input = to_alphabet(class, c.take(n_in));
    let nops = c.below(20);
    let mut ops = Vec::new();
    for _ in 0..nops {
        ops.push(match c.u8() % 12 {
            // a forced mode must contain the input: only modes at least as wide as the input's class
            0 => c14::Op::SetMode(Mode::from_index((kind as usize + c.below(3 - kind as usize)).min(2))),
            1 => c14::Op::SetEcl(Level::from_index(c.below(4))),
            2 => c14::Op::SetVersion(1 + c.below(40)),
            3 => c14::Op::SetMask(c.below(8) as u8),
            4 | 5 | 6 => c14::Op::Build,
            7 | 8 => {
                let l = c.below(60);
                let k2 = c.u8() % 3;
                let cl = [Mode::Numeric, Mode::Alphanumeric, Mode::Byte][k2 as usize];
                let inp = to_alphabet(cl, c.take(l));
                let vs = c.u8();
                let ks = c.u8();
                let ls = c.u8() % 5;
                c14::Op::BuildOther(BuildCase::new(
                    inp,
                    Opts {
                        mode: None,
                        level: if ls == 0 { None } else { Some(Level::from_index(ls as usize - 1)) },
                        version: if (1..=40).contains(&vs) { Some(vs as usize) } else { None },
                        mask: if ks < 8 { Some(ks) } else { None },
                    },
                ))
            }
            9 => match c.u8() % 4 {
                0 => c14::Op::RenderText,
                1 => c14::Op::PRenderSvg,
                2 => c14::Op::PSet(c14::SvgOp::Margin(c.below(9))),
                _ => c14::Op::PSet(c14::SvgOp::Image("logo.png".to_string())),
            },
            10 => c14::Op::RenderSvg(svg_ops(&mut c)),
            _ => c14::Op::RenderPng(png_ops(&mut c)),
        });
    }
    c14::History { input, ops }
}

fn svg_ops(c: &mut Cur) -> Vec<c14::SvgOp> {
    let n = c.below(5);
    (0..n)
        .map(|_| match c.u8() % 8 {
            0 => c14::SvgOp::Margin(c.below(9)),
            1 => c14::SvgOp::ModuleColor(color(c)),
            2 => c14::SvgOp::Background(color(c)),
            3 => c14::SvgOp::Shape(c.below(6), if c.u8() & 1 == 0 { None } else { Some(color(c)) }),
            4 => c14::SvgOp::Image(text(c, 12)),
            5 => c14::SvgOp::ImageBgShape(c.below(3)),
            6 => c14::SvgOp::ImageSize(1.0 + c.below(20) as f64 / 2.0),
            _ => c14::SvgOp::ImageGap(c.below(8) as f64 / 2.0),
        })
        .collect()
}

fn png_ops(c: &mut Cur) -> Vec<c14::SvgOp> {
    let n = c.below(3);
    (0..n)
        .map(|_| match c.u8() % 4 {
            0 => c14::SvgOp::Margin(c.below(5)),
            1 => c14::SvgOp::ModuleColor(ColorSpec::Rgb([c.u8(), c.u8(), c.u8()])),
            2 => c14::SvgOp::Background(ColorSpec::Rgb([c.u8(), c.u8(), c.u8()])),
            _ => c14::SvgOp::Shape(c.below(6), None),
        })
        .collect()
}

/// Steered matrices for the fuzzer: [level, version, mask, n items] then 6 bytes per steering item
/// (kind, orientation/base flags, line index, start, two run lengths / exception positions), rest = filler.
fn steered_build_case(c: &mut Cur) -> (BuildCase, &'static str) {
    use crate::gens::{steer_constraints, steer_payload, SteerItem};
    let level = Level::from_index((c.u8() % 4) as usize);
    let version = 1 + c.below(40);
    let mask = c.u8() % 8;
    let n = size(version);
    let nitems = 1 + c.below(4);
    let mut items = Vec::new();
    for _ in 0..nitems {
        let kind = c.u8() % 4;
        let flags = c.u8();
        let idx = match flags >> 4 & 3 {
            0 => n - 1,
            1 => n - 1 - c.below(3),
            _ => c.below(n),
        };
        let vertical = flags & 1 != 0;
        let val = flags & 2 != 0;
        let a = c.below(n);
        let b = 1 + c.below(70);
        let d = 1 + c.below(70);
        items.push(match kind {
            0 => SteerItem::Line { vertical, index: idx, base: val, exceptions: vec![a, (a + b) % n], pair: flags & 4 != 0 },
            1 => SteerItem::Runs { vertical, index: idx, start: a, first: val, runs: vec![b, d, b] },
            2 => SteerItem::Finder { vertical, index: idx, start: a },
            _ => SteerItem::Rect { r0: idx, c0: a, h: 1 + (b % 5), w: d, val },
        });
    }
    let filler = c.rest();
    let cons = steer_constraints(n, &items);
    let (payload, _) = steer_payload(version, level, mask, &cons, filler);
    (BuildCase::new(payload, Opts { mode: Some(Mode::Byte), level: Some(level), version: Some(version), mask: Some(mask) }), "fuzz:steered")
}
