//! Oracle self-test: the reference model must accept symbols produced by an encoder that is not
//! fast_qr (the `qrcode` 0.12 crate) and must agree with it on capacities. A failure here is a
//! harness defect (exit 2), never a violation.

use qrcode::bits::Bits;
use qrcode::{EcLevel, QrCode, Version as QV};
use refmodel::codec::{build_symbol, decode_strict};
use refmodel::tables::*;

fn ql(l: Level) -> EcLevel {
    match l {
        Level::L => EcLevel::L,
        Level::M => EcLevel::M,
        Level::Q => EcLevel::Q,
        Level::H => EcLevel::H,
    }
}

pub fn sample_input(mode: Mode, len: usize, salt: usize) -> Vec<u8> {
    (0..len)
        .map(|i| match mode {
            Mode::Numeric => b'0' + ((i * 7 + 3 + salt) % 10) as u8,
            Mode::Alphanumeric => ALNUM_SET[(i * 11 + 5 + salt) % 45],
            Mode::Byte => (i * 131 + 17 + salt * 29) as u8,
        })
        .collect()
}

pub fn qrcode_symbol(mode: Mode, input: &[u8], v: usize, l: Level) -> Result<Vec<bool>, String> {
    let mut bits = Bits::new(QV::Normal(v as i16));
    match mode {
        Mode::Numeric => bits.push_numeric_data(input),
        Mode::Alphanumeric => bits.push_alphanumeric_data(input),
        Mode::Byte => bits.push_byte_data(input),
    }
    .map_err(|e| format!("qrcode push: {:?}", e))?;
    bits.push_terminator(ql(l)).map_err(|e| format!("qrcode terminator: {:?}", e))?;
    let code = QrCode::with_bits(bits, ql(l)).map_err(|e| format!("qrcode with_bits: {:?}", e))?;
    Ok(code.to_colors().into_iter().map(|c| c == qrcode::Color::Dark).collect())
}

/// Returns (symbols checked, Err(description) on the first disagreement)
pub fn run(full: bool) -> Result<usize, String> {
    let results: Vec<Result<usize, String>> = std::thread::scope(|s| {
        let hs: Vec<_> = (0..16usize)
            .map(|t| {
                s.spawn(move || {
                    let mut n = 0;
                    // interleave versions over threads, big ones spread out
                    for v in (1..=40usize).filter(|v| v % 16 == t) {
                        n += run_version(v, full)?;
                    }
                    Ok(n)
                })
            })
            .collect();
        hs.into_iter().map(|h| h.join().unwrap_or_else(|_| Err("self-test thread panicked".into()))).collect()
    });
    let mut total = 0;
    for r in results {
        total += r?;
    }
    Ok(total)
}

fn run_version(v: usize, full: bool) -> Result<usize, String> {
    let mut symbols = 0;
    {
        for &l in &LEVELS {
            let bits = Bits::new(QV::Normal(v as i16));
            let max = bits.max_len(ql(l)).map_err(|e| format!("{:?}", e))?;
            if max != 8 * data_codewords(v, l) {
                return Err(format!("data capacity v{} {}: qrcode {} bits, model {} bits", v, l.name(), max, 8 * data_codewords(v, l)));
            }
            for &mode in &MODES {
                let cap = capacity(v, l, mode);
                let lens: Vec<usize> = if full { vec![cap, cap / 2, 1] } else { vec![cap] };
                for len in lens {
                    let input = sample_input(mode, len, v + l as usize);
                    let m = qrcode_symbol(mode, &input, v, l)?;
                    let d = decode_strict(&m, size(v))
                        .map_err(|e| format!("reference decoder rejects qrcode symbol v{} {} {} len {}: {}", v, l.name(), mode.name(), len, e))?;
                    if d.read.level != l || d.parsed.segments.len() != 1 || d.parsed.segments[0].mode != mode || d.parsed.segments[0].bytes != input {
                        return Err(format!("reference decoder mis-decodes qrcode symbol v{} {} {} len {}", v, l.name(), mode.name(), len));
                    }
                    // the reference encoder with the same mask must produce the identical matrix
                    let mine = build_symbol(mode, &input, v, l, d.read.mask)?;
                    if mine != m {
                        let diff = mine.iter().zip(m.iter()).filter(|(a, b)| a != b).count();
                        return Err(format!("reference encoder differs from qrcode in {} modules for v{} {} {} len {}", diff, v, l.name(), mode.name(), len));
                    }
                    symbols += 1;
                }
                // one character more must not fit according to qrcode either
                let over = sample_input(mode, cap + 1, 1);
                let mut bits = Bits::new(QV::Normal(v as i16));
                let pushed = match mode {
                    Mode::Numeric => bits.push_numeric_data(&over),
                    Mode::Alphanumeric => bits.push_alphanumeric_data(&over),
                    Mode::Byte => bits.push_byte_data(&over),
                };
                let fits_qrcode = pushed.is_ok() && bits.push_terminator(ql(l)).is_ok();
                if fits_qrcode {
                    return Err(format!("qrcode accepts {} chars in v{} {} {}, model capacity is {}", cap + 1, v, l.name(), mode.name(), cap));
                }
            }
        }
    }
    Ok(symbols)
}
