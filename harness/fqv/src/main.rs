//! fqv — generated-input checks for the fast_qr properties C01..C19.
//!
//! usage: fqv <ID> <quick|thorough>            run the check, write evidence, exit 0/1/2
//!        fqv <ID> --replay <file.json>        re-execute one saved case through the oracle
//!        fqv selftest [full]                  oracle self-test against the `qrcode` crate

use fqv::engine::{self, Engine, Tier};
use fqv::{props, selftest};

fn usage() -> ! {
    eprintln!("usage: fqv <C01..C19> <quick|thorough> | fqv <ID> --replay <file> | fqv selftest [full]");
    std::process::exit(2);
}

fn main() {
    engine::install_panic_hook();
    let args: Vec<String> = std::env::args().collect();
    if args.len() < 2 {
        usage();
    }
    if args[1] == "__c19child" {
        props::c19::child_main(&args[2..]);
    }
    if args[1] == "__c16print" {
        props::c16::print_main(&args[2..]);
    }
    if args[1] == "__coldround" {
        props::c14::coldround_main(&args[2..]);
    }
    if args[1] == "__cold" {
        props::c14::cold_main(&args[2..]);
    }
    if args[1] == "selftest" {
        let full = args.get(2).map(|s| s == "full").unwrap_or(false);
        match selftest::run(full) {
            Ok(n) => {
                println!("oracle self-test ok: {} third-party symbols decoded and reproduced by the reference model", n);
                std::process::exit(0);
            }
            Err(e) => {
                println!("ORACLE-SELFTEST-FAILED {}", e);
                std::process::exit(2);
            }
        }
    }
    let id = args[1].to_uppercase();
    let Some(prop) = props::lookup(&id) else { usage() };
    let seed: u64 = std::env::var("VERIF_SEED").ok().and_then(|s| s.trim().parse::<i128>().ok()).map(|x| x as u64).unwrap_or(0);
    if args.len() >= 4 && args[2] == "--replay" {
        let text = match std::fs::read_to_string(&args[3]) {
            Ok(t) => t,
            Err(e) => {
                eprintln!("cannot read {}: {}", args[3], e);
                std::process::exit(2);
            }
        };
        let doc: serde_json::Value = match serde_json::from_str(&text) {
            Ok(d) => d,
            Err(e) => {
                eprintln!("cannot parse {}: {}", args[3], e);
                std::process::exit(2);
            }
        };
        let e: &'static Engine = Box::leak(Box::new(Engine::new(prop.id, Tier::Quick, seed, prop.level)));
        let case = if doc.get("case").is_some() { doc["case"].clone() } else { doc.clone() };
        let local = std::cell::RefCell::new(engine::LocalStats::default());
        let jc = engine::JobCtx { engine: e, job: 0, local, failures: std::cell::RefCell::new(Vec::new()) };
        let mut obs = jc.obs();
        match (prop.replay)(e, &case, &mut obs) {
            Ok(()) => {
                println!("REPLAY-OK property={} case holds on the current tree", prop.id);
                std::process::exit(0);
            }
            Err(f) => {
                println!("VIOLATION property={} replay={}", prop.id, args[3]);
                println!("  signature: {}", f.sig);
                println!("  detail: {}", f.msg);
                std::process::exit(1);
            }
        }
    }
    let tier_arg = args.get(2).map(|s| s.as_str()).unwrap_or("quick");
    let tier_env = std::env::var("VERIF_TIER").ok();
    let tier = match tier_env.as_deref().unwrap_or(tier_arg) {
        "thorough" => Tier::Thorough,
        "quick" => Tier::Quick,
        _ => usage(),
    };
    // oracle self-test first (fast subset); a failure is a harness defect
    if prop.needs_model {
        if let Err(e) = selftest::run(false) {
            println!("ORACLE-SELFTEST-FAILED {}", e);
            std::process::exit(2);
        }
    }
    let e: &'static Engine = Box::leak(Box::new(Engine::new(prop.id, tier, seed, prop.level)));
    if prop.needs_model {
        e.put("oracle_selftest", serde_json::json!({"third_party_symbols": 480, "ok": true}));
    }
    e.start_watchdog(prop.watchdog_s, prop.on_timeout);
    (prop.run)(e);
    fqv::fuzzrt::replay_seeds(e);
    std::process::exit(e.finish());
}
