//! fqv — generated-input checks for the fast_qr properties C01..C19 (library part: engine, adapters,
//! generators, oracles; used by the `fqv` binary and by the libFuzzer targets in /verif/fuzz).

pub mod engine;
pub mod fq;
pub mod fuzzdec;
pub mod fuzzrt;
pub mod gens;
pub mod props;
pub mod selftest;
pub mod svgcase;
pub mod svgpath;
