//! Runtime shared by the libFuzzer targets in /verif/fuzz and by the corpus replay of the proptest tiers.
//!
//! A target is a decoder family (see fuzzdec) plus the oracles of the properties it serves. The oracle runs
//! INSIDE the target: a failure writes a replay file in the same format as the proptest runner, prints the
//! `VIOLATION property=<id> replay=<path>` line and aborts, so libFuzzer stops and keeps the crashing input.
//! Which properties are active is chosen by FQV_FUZZ_PROPS (a campaign for one property enables only that
//! property's oracle, so the alarm is attributed correctly).

use crate::engine::{self, Engine, Fail, JobCtx, LocalStats, Obs};
use crate::fuzzdec;
use crate::props::{self, c01, c02, c03, c04, c05, c06, c08, c09, c10, c12, c13, c14, c15, c16, c18};
#[cfg(fast_qr_verif)]
use crate::props::{c07, c11, c17};
use serde_json::{json, Value};
use std::cell::RefCell;
use std::sync::Mutex;

pub const TARGETS: [(&str, &[&str]); 6] = [
    ("build", &["C10", "C01", "C02", "C03", "C04", "C05", "C06", "C09", "C15", "C16"]),
    ("masks", &["C08", "C11"]),
    ("svg", &["C12", "C18", "C13"]),
    ("wasm", &["C17"]),
    ("division", &["C07"]),
    ("history", &["C14"]),
];

pub fn target_of(prop: &str) -> Option<&'static str> {
    TARGETS.iter().find(|(_, ps)| ps.contains(&prop)).map(|(t, _)| *t)
}

/// Decode `data` for `prop` and run that property's oracle. Returns the case (as replayable JSON) and the verdict.
pub fn eval(prop: &str, data: &[u8], obs: &mut Obs) -> Option<(Value, Result<(), Fail>)> {
    Some(match prop {
        "C01" | "C03" | "C04" | "C06" | "C08" | "C10" | "C11" | "C15" | "C16" | "C02" | "C05" | "C09" => {
            let (bc, fam) = fuzzdec::build_case(data);
            let j = bc.to_json();
            match prop {
                "C01" => (j, c01::check(&bc, fam, obs)),
                "C03" => (j, c03::check(&bc, fam, obs)),
                "C04" => (j, c04::check(&bc, fam, obs)),
                "C06" => (j, c06::check(&bc, fam, obs)),
                "C08" => (j, c08::check(&bc, fam, obs)),
                "C10" => (j, c10::check(&bc, fam, obs)),
                #[cfg(fast_qr_verif)]
                "C11" => (j, c11::check(&bc, fam, obs)),
                "C15" => {
                    let small = bc.opts.version.map(|v| v <= 6).unwrap_or(bc.input.len() < 40);
                    (j, c15::check(&bc, small, obs))
                }
                "C16" => (j, c16::check(&bc, obs)),
                "C02" => {
                    let h = engine::hash_bytes(data);
                    let case = c02::Case { build: bc, fam, corrupt: if h & 3 == 0 { None } else { Some((h >> 2, h & 4 != 0)) } };
                    (c02::to_json(&case), c02::check(&case, obs))
                }
                "C05" => (j, c05::check_bc(&bc, obs)),
                _ => {
                    // C09 speaks about automatic mode only: the payload alone is the case
                    let input = bc.input.clone();
                    (c09::to_json(&input), c09::check(&input, obs))
                }
            }
        }
        "C12" => {
            let c = fuzzdec::svg_case(data);
            (c12::to_json(&c), c12::check(&c, obs))
        }
        "C13" => {
            let c = fuzzdec::raster_case(data);
            (c13::to_json(&c), c13::check(&c, obs))
        }
        "C18" => {
            let c = fuzzdec::frame_case(data);
            (c18::to_json(&c), c18::check(&c, obs).map(|_| ()))
        }
        #[cfg(fast_qr_verif)]
        "C17" => {
            let c = fuzzdec::wasm_case(data);
            (c17::to_json(&c), c17::check(&c, obs))
        }
        #[cfg(fast_qr_verif)]
        "C07" => {
            let c = fuzzdec::division_case(data);
            let r = c07::check_generator(c.version, c.level).and_then(|_| c07::check(&c, obs));
            (c07::to_json(&c), r)
        }
        "C14" => {
            let h = fuzzdec::history_case(data);
            (c14::hist_json(&h), c14::check_history(&h, obs))
        }
        _ => return None,
    })
}

struct State {
    target: String,
    props: Vec<String>,
    known: Vec<(String, Vec<engine::Known>)>,
    stats: LocalStats,
    iters: u64,
    excluded: u64,
    stats_path: Option<String>,
}

static STATE: Mutex<Option<State>> = Mutex::new(None);

fn dump(st: &State) {
    let Some(path) = &st.stats_path else { return };
    let mut samples = Vec::new();
    let mut per: std::collections::BTreeMap<&str, usize> = Default::default();
    for (c, v) in &st.stats.samples {
        let k = per.entry(c.as_str()).or_insert(0);
        if *k < 1 && samples.len() < 24 {
            *k += 1;
            samples.push(json!({"class": c, "case": v}));
        }
    }
    let doc = json!({
        "target": st.target,
        "props": st.props,
        "executions": st.iters,
        "evaluations": st.stats.evaluations,
        "distinct_nontrivial": st.stats.nontrivial.len(),
        "labels": st.stats.labels,
        "excluded_known": st.excluded,
        "samples": samples,
    });
    let tmp = format!("{}.tmp", path);
    if std::fs::write(&tmp, doc.to_string()).is_ok() {
        let _ = std::fs::rename(&tmp, path);
    }
}

extern "C" fn at_exit() {
    if let Ok(g) = STATE.lock() {
        if let Some(st) = g.as_ref() {
            dump(st);
        }
    }
}

fn init(target: &str) -> State {
    engine::install_panic_hook();
    std::env::set_var("FQV_IN_FUZZ", "1");
    let all: &[&str] = TARGETS.iter().find(|(t, _)| *t == target).map(|(_, p)| *p).unwrap_or(&[]);
    let props: Vec<String> = match std::env::var("FQV_FUZZ_PROPS") {
        Ok(s) if !s.trim().is_empty() => s.split(',').map(|x| x.trim().to_uppercase()).filter(|x| all.contains(&x.as_str())).collect(),
        _ => all.iter().map(|s| s.to_string()).collect(),
    };
    if props.is_empty() {
        eprintln!("fuzz target {}: FQV_FUZZ_PROPS selects none of {:?}", target, all);
        std::process::exit(2);
    }
    let known = props.iter().map(|p| (p.clone(), engine::load_known(p))).collect();
    unsafe {
        libc::atexit(at_exit);
    }
    State { target: target.to_string(), props, known, stats: LocalStats::default(), iters: 0, excluded: 0, stats_path: std::env::var("FQV_FUZZ_STATS").ok() }
}

/// One libFuzzer iteration.
pub fn run_one(target: &str, data: &[u8]) {
    let mut g = STATE.lock().unwrap();
    if g.is_none() {
        *g = Some(init(target));
    }
    let st = g.as_mut().unwrap();
    st.iters += 1;
    let cell = RefCell::new(std::mem::take(&mut st.stats));
    let mut violation: Option<(String, Value, Fail)> = None;
    for p in st.props.clone() {
        let mut obs = Obs::new(&cell);
        obs.eval();
        if let Some((case, Err(f))) = eval(&p, data, &mut obs) {
            let is_known = st.known.iter().any(|(kp, ks)| *kp == p && ks.iter().any(|k| k.sig == f.sig));
            if is_known {
                st.excluded += 1;
            } else {
                violation = Some((p, case, f));
                break;
            }
        }
    }
    st.stats = cell.into_inner();
    if let Some((p, case, f)) = violation {
        let dir = format!("{}/replays/{}", engine::verif_dir(), p);
        let _ = std::fs::create_dir_all(&dir);
        let path = format!("{}/fuzz-{:016x}.json", dir, engine::hash_value(&case));
        let doc = json!({"property": p, "format": 1, "case": case, "signature": f.sig, "observed": f.msg, "shrunk": false, "found_by": format!("libFuzzer target {}", st.target)});
        let _ = std::fs::write(&path, serde_json::to_string_pretty(&doc).unwrap());
        println!("VIOLATION property={} replay={}", p, path);
        println!("  detail: {}", f.msg.chars().take(600).collect::<String>());
        dump(st);
        use std::io::Write;
        let _ = std::io::stdout().flush();
        std::process::abort();
    }
    if st.iters % 20_000 == 0 {
        dump(st);
    }
}

/// Replay the committed seed corpus of the target serving this property through its oracle (part of every tier).
pub fn replay_seeds(e: &'static Engine) {
    let Some(target) = target_of(e.id) else { return };
    let dir = format!("{}/fuzz/seeds/{}", engine::verif_dir(), target);
    let mut files: Vec<String> = match std::fs::read_dir(&dir) {
        Ok(rd) => rd.filter_map(|x| x.ok()).map(|x| x.path().to_string_lossy().to_string()).collect(),
        Err(_) => return,
    };
    files.sort();
    if files.is_empty() {
        return;
    }
    let n = files.len() as u64;
    let chunks: Vec<Vec<String>> = files.chunks((files.len() + 15) / 16).map(|c| c.to_vec()).collect();
    let id = e.id;
    let jobs: Vec<engine::Job> = chunks
        .into_iter()
        .map(|chunk| {
            Box::new(move |jc: &mut JobCtx| {
                for p in &chunk {
                    let Ok(data) = std::fs::read(p) else { continue };
                    jc.run_case(
                        &data,
                        |d| {
                            let cell = RefCell::new(LocalStats::default());
                            let mut o = Obs::new(&cell);
                            eval(id, d, &mut o).map(|x| x.0).unwrap_or(Value::Null)
                        },
                        |d, o| {
                            o.label("part:fuzz_seed_corpus");
                            eval(id, d, o).map(|x| x.1).unwrap_or(Ok(()))
                        },
                    );
                }
            }) as engine::Job
        })
        .collect();
    e.par(jobs);
    e.add_counter("fuzz_seed_files_replayed", n);
    let _ = props::lookup;
}
