//! Adapter between harness-level values and the fast_qr public API.

use crate::engine::{catch, hex, unhex};
use fast_qr::{Mask, Mode as FMode, ModuleType, QRBuilder, QRCode, Version, ECL};
use refmodel::geom::Region;
use refmodel::tables::{Level, Mode};
use serde_json::{json, Value};

pub const VERSIONS: [Version; 40] = [
    Version::V01, Version::V02, Version::V03, Version::V04, Version::V05, Version::V06, Version::V07, Version::V08,
    Version::V09, Version::V10, Version::V11, Version::V12, Version::V13, Version::V14, Version::V15, Version::V16,
    Version::V17, Version::V18, Version::V19, Version::V20, Version::V21, Version::V22, Version::V23, Version::V24,
    Version::V25, Version::V26, Version::V27, Version::V28, Version::V29, Version::V30, Version::V31, Version::V32,
    Version::V33, Version::V34, Version::V35, Version::V36, Version::V37, Version::V38, Version::V39, Version::V40,
];

pub const MASKS: [Mask; 8] = [
    Mask::Checkerboard,
    Mask::HorizontalLines,
    Mask::VerticalLines,
    Mask::DiagonalLines,
    Mask::LargeCheckerboard,
    Mask::Fields,
    Mask::Diamonds,
    Mask::Meadow,
];

pub fn f_version(v: usize) -> Version {
    VERSIONS[v - 1]
}
pub fn version_no(v: Version) -> usize {
    v as usize + 1
}
pub fn f_mask(m: u8) -> Mask {
    MASKS[m as usize]
}
pub fn mask_no(m: Mask) -> u8 {
    m as usize as u8
}
pub fn f_level(l: Level) -> ECL {
    match l {
        Level::L => ECL::L,
        Level::M => ECL::M,
        Level::Q => ECL::Q,
        Level::H => ECL::H,
    }
}
pub fn level_of(e: ECL) -> Level {
    match e {
        ECL::L => Level::L,
        ECL::M => Level::M,
        ECL::Q => Level::Q,
        ECL::H => Level::H,
    }
}
pub fn f_mode(m: Mode) -> FMode {
    match m {
        Mode::Numeric => FMode::Numeric,
        Mode::Alphanumeric => FMode::Alphanumeric,
        Mode::Byte => FMode::Byte,
    }
}
pub fn mode_of(m: FMode) -> Mode {
    match m {
        FMode::Numeric => Mode::Numeric,
        FMode::Alphanumeric => Mode::Alphanumeric,
        FMode::Byte => Mode::Byte,
    }
}

/// The type label fast_qr must give to a module of the given ISO region
pub fn expected_label(r: Region) -> ModuleType {
    match r {
        Region::Encoding => ModuleType::Data,
        Region::Finder => ModuleType::FinderPattern,
        Region::Separator => ModuleType::Empty,
        Region::Timing => ModuleType::Timing,
        Region::Alignment => ModuleType::Alignment,
        Region::Format => ModuleType::Format,
        Region::Version => ModuleType::Version,
        Region::DarkModule => ModuleType::DarkModule,
    }
}

#[derive(Clone, Debug, PartialEq, Eq, Hash, Default)]
pub struct Opts {
    pub mode: Option<Mode>,
    pub level: Option<Level>,
    pub version: Option<usize>,
    pub mask: Option<u8>,
}

#[derive(Clone, PartialEq, Eq, Hash)]
pub struct BuildCase {
    pub input: Vec<u8>,
    pub opts: Opts,
    /// Builder reuse: when Some, the SAME QRBuilder is first configured with these options (a subset of the keys of
    /// `opts`, with other values) and built once; then the setters are called again with the final `opts` and the
    /// build under test is made. Setters are last-value-wins, so the result must equal that of a fresh builder.
    pub warm: Option<Opts>,
    /// After the warm-up build: true = every final setter is called again; false = only the setters whose value differs
    /// from the warm-up's are called (calling a setter again with the value it already has must not matter).
    pub resend: bool,
    /// Related predecessor: before the builder under test is even created, another builder is built on the same thread
    /// and dropped. 0 none; 1 same input at another level; 2 the input extended by a character of a wider class;
    /// 3 same length, other content, same options (its buffer is freed just before the input under test is allocated);
    /// 4 the input without its last character; 5 the same input with every option automatic; 6 the input extended by
    /// a character of the same class; 7 a build that panics half-way through encoding (a compact mode forced on content
    /// derived from the input with one character outside that mode - the crate documents this panic - caught with
    /// catch_unwind, as an application would); 8 a build that returns an error (the input forced into version 1, or more
    /// than version 40 holds); 9 no build but the public `datamasking::mask` applied to a blank canvas (`QRCode::default`)
    /// of the size the coming symbol will have. Building is a pure function, so none of this may change the result.
    pub pred: u8,
}

impl std::fmt::Debug for BuildCase {
    fn fmt(&self, f: &mut std::fmt::Formatter<'_>) -> std::fmt::Result {
        match &self.warm {
            None => write!(f, "BuildCase{{len={}, opts={:?}, input={}}}", self.input.len(), self.opts, short_bytes(&self.input)),
            Some(w) => write!(f, "BuildCase{{len={}, opts={:?}, same builder first built with {:?} ({}), input={}}}", self.input.len(), self.opts, w, if self.resend { "then every setter called again" } else { "then only the changed setters called" }, short_bytes(&self.input)),
        }
    }
}

pub fn short_bytes(b: &[u8]) -> String {
    if b.len() <= 48 {
        format!("{:?}", String::from_utf8_lossy(b))
    } else {
        format!("{:?}…(+{} bytes)", String::from_utf8_lossy(&b[..48]), b.len() - 48)
    }
}

impl BuildCase {
    pub fn new(input: Vec<u8>, opts: Opts) -> Self {
        BuildCase { input, opts, warm: None, resend: true, pred: 0 }
    }

    /// The same case with a builder warm-up derived from `sel` (None for 3 values of `sel` out of 4). Only options
    /// that the final configuration also sets may be set during the warm-up (an option cannot be un-set again).
    pub fn with_warm_sel(mut self, sel: u16) -> Self {
        self.pred = [0u8, 0, 0, 0, 0, 0, 0, 7, 1, 2, 3, 4, 5, 6, 8, 9][(sel >> 12) as usize & 15];
        if sel % 4 != 0 {
            return self;
        }
        let s = (sel >> 2) as usize;
        let o = &self.opts;
        self.resend = (sel >> 11) & 1 == 0;
        let warm = Opts {
            // the warm-up mode may be any mode, including one the input does not fit (that build then panics or fails
            // and is ignored; the setter is overwritten afterwards)
            mode: o.mode.and_then(|m| match (s ^ (s >> 4)) % 4 {
                0 => Some(m),
                1 => None,
                k => Some(Mode::from_index((m as usize + k as usize - 1) % 3)),
            }),
            level: o.level.and_then(|l| match (s >> 1) % 3 {
                0 => None,
                1 => Some(Level::from_index((l as usize + 1 + (s >> 3) % 3) % 4)),
                _ => Some(l),
            }),
            version: o.version.and_then(|v| match (s >> 5) % 4 {
                0 => None,
                1 => Some(1 + (v + (s >> 7) % 39) % 40),
                2 => Some(40),
                _ => Some(v),
            }),
            mask: o.mask.and_then(|m| match (s >> 9) % 3 {
                0 => None,
                1 => Some((m + 1 + ((s >> 11) % 7) as u8) % 8),
                _ => Some(m),
            }),
        };
        self.warm = Some(warm);
        self
    }

    pub fn to_json(&self) -> Value {
        json!({
            "input_hex": hex(&self.input),
            "input_len": self.input.len(),
            "input_preview": short_bytes(&self.input),
            "mode": self.opts.mode.map(|m| m.name()),
            "level": self.opts.level.map(|l| l.name()),
            "version": self.opts.version,
            "mask": self.opts.mask,
            "predecessor": self.pred,
            "warm_resend_all": self.resend,
            "warm_builder": self.warm.as_ref().map(|w| json!({"mode": w.mode.map(|m| m.name()), "level": w.level.map(|l| l.name()), "version": w.version, "mask": w.mask})),
        })
    }

    /// compact form for evidence samples (long payloads abbreviated)
    pub fn to_sample(&self) -> Value {
        let mut v = self.to_json();
        if self.input.len() > 64 {
            let o = v.as_object_mut().unwrap();
            o.insert("input_hex".into(), json!(format!("{}…", hex(&self.input[..32]))));
        }
        v
    }

    pub fn from_json(v: &Value) -> Option<BuildCase> {
        let input = unhex(v.get("input_hex")?.as_str()?)?;
        let mode = match v.get("mode").and_then(|x| x.as_str()) {
            Some("Numeric") => Some(Mode::Numeric),
            Some("Alphanumeric") => Some(Mode::Alphanumeric),
            Some("Byte") => Some(Mode::Byte),
            _ => None,
        };
        let level = match v.get("level").and_then(|x| x.as_str()) {
            Some("L") => Some(Level::L),
            Some("M") => Some(Level::M),
            Some("Q") => Some(Level::Q),
            Some("H") => Some(Level::H),
            _ => None,
        };
        let version = v.get("version").and_then(|x| x.as_u64()).map(|x| x as usize);
        let mask = v.get("mask").and_then(|x| x.as_u64()).map(|x| x as u8);
        let warm = v.get("warm_builder").filter(|w| w.is_object()).map(|w| Opts {
            mode: match w.get("mode").and_then(|x| x.as_str()) {
                Some("Numeric") => Some(Mode::Numeric),
                Some("Alphanumeric") => Some(Mode::Alphanumeric),
                Some("Byte") => Some(Mode::Byte),
                _ => None,
            },
            level: match w.get("level").and_then(|x| x.as_str()) {
                Some("L") => Some(Level::L),
                Some("M") => Some(Level::M),
                Some("Q") => Some(Level::Q),
                Some("H") => Some(Level::H),
                _ => None,
            },
            version: w.get("version").and_then(|x| x.as_u64()).map(|x| x as usize),
            mask: w.get("mask").and_then(|x| x.as_u64()).map(|x| x as u8),
        });
        let pred = v.get("predecessor").and_then(|x| x.as_u64()).unwrap_or(0) as u8;
        let resend = v.get("warm_resend_all").and_then(|x| x.as_bool()).unwrap_or(true);
        Some(BuildCase { input, opts: Opts { mode, level, version, mask }, warm, resend, pred })
    }

    pub fn hash(&self) -> u64 {
        crate::engine::hash_value(&self.to_json())
    }

    fn run_predecessor(&self) {
        if self.pred == 0 {
            return;
        }
        let mode_in_effect = self.effective_mode();
        if self.pred == 9 {
            // not a build at all: the public `datamasking::mask` applied, on this thread, to a matrix that is NOT a symbol
            // (the blank canvas `QRCode::default(size)`, every module of type Data) of exactly the size the coming
            // symbol will have - anything remembered per size from "the first matrix seen" is then wrong for the symbol
            let v = self.opts.version.or_else(|| refmodel::tables::min_version(self.effective_level(), mode_in_effect, self.input.len()));
            if let Some(v) = v.filter(|v| (1..=40).contains(v)) {
                let n = 17 + 4 * v;
                let h = crate::engine::hash_bytes(&self.input);
                let _ = catch(move || {
                    let mut q = Box::new(QRCode::default(n));
                    fast_qr::datamasking::mask(&mut q, f_mask((h % 8) as u8));
                    if h & 8 != 0 {
                        fast_qr::datamasking::mask(&mut q, f_mask(((h >> 4) % 8) as u8));
                    }
                    q.size
                });
            }
            return;
        }
        let same_class = |b: u8| -> u8 {
            match mode_in_effect {
                Mode::Numeric => b'0' + (b.wrapping_sub(b'0') % 10 + 7) % 10,
                Mode::Alphanumeric => refmodel::tables::ALNUM_SET[(refmodel::tables::alnum_value(b).unwrap_or(0) as usize + 11) % 45],
                Mode::Byte => b ^ 0x21,
            }
        };
        let (input, opts): (Vec<u8>, Opts) = match self.pred {
            1 => {
                let mut o = self.opts.clone();
                o.level = Some(Level::from_index((self.effective_level() as usize + 1 + self.input.len() % 3) % 4));
                (self.input.clone(), o)
            }
            2 => {
                // one more character, of the next wider class; modes can then only stay forced if they still contain it
                let mut v = self.input.clone();
                v.push(match mode_in_effect {
                    Mode::Numeric => b'A',
                    _ => b'a',
                });
                let mut o = self.opts.clone();
                o.mode = if o.mode == Some(Mode::Byte) { o.mode } else { None };
                (v, o)
            }
            3 => (self.input.iter().map(|&b| same_class(b)).collect(), self.opts.clone()),
            4 => {
                let mut v = self.input.clone();
                v.pop();
                (v, self.opts.clone())
            }
            5 => (self.input.clone(), Opts::default()),
            7 => {
                // digits (or characters of the 45-set) derived from the input, with one character outside the forced
                // mode at a position derived from the input: encoding stops there with the documented panic
                let h = crate::engine::hash_bytes(&self.input);
                let numeric = h % 2 == 0;
                let n = 2 + (self.input.len() + (h >> 8) as usize % 7).min(600);
                let mut v: Vec<u8> = (0..n)
                    .map(|i| {
                        let b = *self.input.get(i).unwrap_or(&b'9');
                        if numeric {
                            b'0' + (b % 10 + 9) % 10
                        } else {
                            refmodel::tables::ALNUM_SET[(b as usize * 7 + 44) % 45]
                        }
                    })
                    .collect();
                let at = if (h >> 4) % 3 == 0 { n - 1 } else { (h >> 16) as usize % n };
                v[at] = if numeric { b'x' } else { b'q' };
                (v, Opts { mode: Some(if numeric { Mode::Numeric } else { Mode::Alphanumeric }), level: self.opts.level, version: self.opts.version, mask: self.opts.mask })
            }
            8 => {
                let mut o = self.opts.clone();
                if self.input.len() > 20 {
                    o.version = Some(1);
                    (self.input.clone(), o)
                } else {
                    o.version = None;
                    (vec![b'#'; 3000 + self.input.len()], o)
                }
            }
            _ => {
                let mut v = self.input.clone();
                v.push(same_class(*self.input.last().unwrap_or(&b'1')));
                (v, self.opts.clone())
            }
        };
        let p = BuildCase { input, opts, warm: None, resend: true, pred: 0 };
        let _ = catch(move || {
            let b = p.builder();
            let r = b.build().map(|q| q.size);
            drop(b);
            r
        });
    }

    pub fn builder(&self) -> QRBuilder {
        self.run_predecessor();
        // the documented ways to hand over the input (`Into<Vec<u8>>`): owned bytes, a byte slice, and for well-formed
        // UTF-8 also String and &str - chosen from the content, all equivalent
        let as_text = std::str::from_utf8(&self.input).ok();
        let mut b = match (crate::engine::hash_bytes(&self.input) >> 7) % 4 {
            1 => QRBuilder::new(&self.input[..]),
            2 if as_text.is_some() => QRBuilder::new(as_text.unwrap().to_string()),
            3 if as_text.is_some() => QRBuilder::new(as_text.unwrap()),
            _ => QRBuilder::new(self.input.clone()),
        };
        if let Some(w) = &self.warm {
            if let Some(m) = w.mode {
                b.mode(f_mode(m));
            }
            if let Some(l) = w.level {
                b.ecl(f_level(l));
            }
            if let Some(v) = w.version {
                b.version(f_version(v));
            }
            if let Some(m) = w.mask {
                b.mask(f_mask(m));
            }
            // the warm-up build may succeed, fail or panic; only the build after it is under test
            let _ = catch(|| b.build().map(|q| q.size));
        }
        let w = self.warm.clone().filter(|_| !self.resend).unwrap_or_default();
        if let Some(m) = self.opts.mode {
            if w.mode != Some(m) {
                b.mode(f_mode(m));
            }
        }
        if let Some(l) = self.opts.level {
            if w.level != Some(l) {
                b.ecl(f_level(l));
            }
        }
        if let Some(v) = self.opts.version {
            if w.version != Some(v) {
                b.version(f_version(v));
            }
        }
        if let Some(m) = self.opts.mask {
            if w.mask != Some(m) {
                b.mask(f_mask(m));
            }
        }
        b
    }

    /// The mode in effect according to the reference classifier
    pub fn effective_mode(&self) -> Mode {
        self.opts.mode.unwrap_or_else(|| refmodel::tables::classify(&self.input))
    }
    pub fn effective_level(&self) -> Level {
        self.opts.level.unwrap_or(Level::Q)
    }
}

#[derive(Clone, Copy, Debug, PartialEq, Eq)]
pub enum BuildErr {
    TooBig,
    VersionTooSmall,
    /// build() panicked (only produced by props::common::do_build; `build` reports panics as the outer Err)
    Panicked,
}

pub struct Built {
    pub qr: Box<QRCode>,
}

impl Built {
    pub fn size(&self) -> usize {
        self.qr.size
    }
    /// The row view `qr[r]` (the `Index` implementation, what the crate's own renderers and its documentation use to
    /// read the matrix) against the `data` field read as size x size rows: both are the same matrix.
    pub fn index_view_differs(&self) -> Option<String> {
        let n = self.qr.size;
        for r in 0..n {
            let row = match catch(|| self.qr[r].iter().map(|m| m.0).collect::<Vec<u8>>()) {
                Ok(row) => row,
                Err(p) => return Some(format!("qr[{}] panicked: {}", r, p)),
            };
            if row.len() != n {
                return Some(format!("qr[{}] has {} modules, size is {}", r, row.len(), n));
            }
            for c in 0..n {
                let m = &self.qr.data[r * n + c];
                if row[c] != m.0 {
                    return Some(format!("qr[{}][{}] is {:#04x} but data[{}] is {:#04x}", r, c, row[c], r * n + c, m.0));
                }
            }
        }
        None
    }
    /// A QR code is a public value: `data`, `qr[r][c]`, `Module::toggle` / `set` are all public, so what a renderer is
    /// handed need not be what `build()` returned. For a third of the selector values, toggles 1..=5 modules in place
    /// (value bit only, the module type stays): inside the three finder zones, on the timing row, anywhere. The
    /// renderers must draw the value of every module, whatever its type says it "should" be. Returns what was edited.
    pub fn edit_after_build(&mut self, sel: u64) -> Option<String> {
        if sel % 3 != 0 {
            return None;
        }
        let n = self.qr.size;
        let mut x = sel / 3;
        let mut next = || {
            x = x.wrapping_mul(0x9E37_79B9_7F4A_7C15).wrapping_add(0x1234_5678_9ABC_DEF1);
            (x >> 33) as usize
        };
        let k = 1 + next() % 5;
        let mut what = Vec::new();
        for _ in 0..k {
            let (r, c, name) = match next() % 6 {
                0 => (next() % 7, next() % 7, "finder_top_left"),
                1 => (next() % 7, n - 1 - next() % 7, "finder_top_right"),
                2 => (n - 1 - next() % 7, next() % 7, "finder_bottom_left"),
                3 => (6, next() % n, "timing_row"),
                _ => (next() % n, next() % n, "anywhere"),
            };
            self.qr[r][c].toggle();
            if !what.contains(&name) {
                what.push(name);
            }
        }
        what.sort();
        Some(what.join("+"))
    }

    pub fn values(&self) -> Vec<bool> {
        let n = self.qr.size;
        self.qr.data[..(n * n).min(self.qr.data.len())].iter().map(|m| m.value()).collect()
    }
}

thread_local! {
    /// a version-40 symbol used as destination of `clone_from` (every kind of module far outside any smaller square)
    static LARGE_SLOT: Box<QRCode> = large_symbol();
}

/// A version-40 symbol; if the tree under test cannot build one (then other checks report that), a hand-filled value of
/// the same side, so that the copy checks never depend on this build
pub fn large_symbol() -> Box<QRCode> {
    match catch(|| QRBuilder::new("CLONE TARGET").version(Version::V40).ecl(ECL::L).build()) {
        Ok(Ok(q)) => Box::new(q),
        _ => {
            let mut q = Box::new(QRCode::default(177));
            for (i, m) in q.data.iter_mut().enumerate() {
                *m = fast_qr::Module::new(i % 3 != 0, if i % 5 == 0 { ModuleType::Alignment } else { ModuleType::Data });
            }
            q
        }
    }
}

/// The same symbol as a value that previously held a larger one: `clone_from` onto a version-40 symbol. `Clone` is
/// part of the public type, so every consumer (renderers included) must treat it exactly like the original.
/// Copies of a symbol made through the public `Clone` implementation: `clone()`, `clone_from` onto a value that held a
/// version-40 symbol, and `clone_from` onto a value that held a small symbol built with another level, another mask
/// and another mode (so that no field of the destination agrees with the source by accident).
pub fn copies(q: &QRCode) -> Vec<(&'static str, Box<QRCode>)> {
    let mut out: Vec<(&'static str, Box<QRCode>)> = vec![("clone()", Box::new(q.clone())), ("clone_from() onto a version-40 symbol", recycled_copy(q))];
    let lv = [ECL::L, ECL::M, ECL::Q, ECL::H];
    let li = q.ecl.map(|e| level_of(e) as usize).unwrap_or(0);
    let mk = q.mask.map(mask_no).unwrap_or(0);
    let (content, mode): (&[u8], fast_qr::Mode) = match q.mode.map(mode_of) {
        Some(Mode::Numeric) => (b"SLOT", fast_qr::Mode::Alphanumeric),
        Some(Mode::Alphanumeric) => (b"slot", fast_qr::Mode::Byte),
        _ => (b"5107", fast_qr::Mode::Numeric),
    };
    let other = catch(|| QRBuilder::new(content.to_vec()).ecl(lv[(li + 1 + (q.size / 4) % 3) % 4]).mask(f_mask((mk + 1 + (q.size as u8 / 4) % 7) % 8)).mode(mode).version(f_version(1 + (q.size / 4 + 3) % 6)).build());
    if let Ok(Ok(o)) = other {
        let mut slot = Box::new(o);
        QRCode::clone_from(&mut slot, q);
        out.push(("clone_from() onto a small symbol of another level, mask and mode", slot));
    }
    out
}

/// Every `Clone` copy of a symbol (see `copies`) equals it byte for byte: the whole backing array (modules and labels,
/// inside and outside the square), the side and the four reported fields. Returns a description of the first difference.
pub fn copy_differs(q: &QRCode) -> Option<String> {
    for (what, c) in copies(q) {
        if c.size != q.size {
            return Some(format!("{}: size {} instead of {}", what, c.size, q.size));
        }
        if let Some(i) = (0..q.data.len()).find(|&i| c.data[i].0 != q.data[i].0) {
            let n = q.size.max(1);
            return Some(format!("{}: backing array element {} (row {}, col {}{}) is {:#04x}, the original has {:#04x}", what, i, i / n, i % n, if i >= n * n { ", outside the symbol" } else { "" }, c.data[i].0, q.data[i].0));
        }
        let f = |x: &QRCode| (x.version.map(version_no), x.ecl.map(|e| level_of(e) as u8), x.mask.map(mask_no), x.mode.map(|m| mode_of(m) as u8));
        if f(&c) != f(q) {
            return Some(format!("{}: fields {:?} instead of {:?}", what, f(&c), f(q)));
        }
    }
    None
}

pub fn recycled_copy(q: &QRCode) -> Box<QRCode> {
    let mut slot = LARGE_SLOT.with(|l| l.clone());
    QRCode::clone_from(&mut slot, q);
    slot
}

/// Build through the public builder. Outer Err = panic message.
pub fn build(case: &BuildCase) -> Result<Result<Built, BuildErr>, String> {
    let b = case.builder();
    build_with(&b)
}

pub fn build_with(b: &QRBuilder) -> Result<Result<Built, BuildErr>, String> {
    let r = catch(|| b.build().map(Box::new))?;
    Ok(match r {
        Ok(qr) => Ok(Built { qr }),
        Err(e) => {
            let by_match = match e {
                fast_qr::qr::QRCodeError::EncodedData => BuildErr::TooBig,
                fast_qr::qr::QRCodeError::SpecifiedVersion => BuildErr::VersionTooSmall,
            };
            let text = format!("{}", e);
            let by_text = if text.contains("Data too big") {
                Some(BuildErr::TooBig)
            } else if text.contains("Specified version too low") {
                Some(BuildErr::VersionTooSmall)
            } else {
                None
            };
            if by_text != Some(by_match) {
                return Err(format!("error variant {:?} displays as {:?}", by_match, text));
            }
            Err(by_match)
        }
    })
}
