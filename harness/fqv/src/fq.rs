//! Adapter between harness-level values and the fast_qr public API.

use crate::engine::{catch, hex, unhex};
use fast_qr::{Mask, Mode as FMode, ModuleType, QRBuilder, QRCode, Version, ECL};
use refmodel::geom::Region;
use refmodel::tables::{Level, Mode};
use serde_json::{json, Value};

pub const VERSIONS: [Version; 40] = [
    Version::V01, Version::V02, Version::V03, Version::V04, Version::V05, Version::V06, Version::V07, Version::V08,
    Version::V09, Version::V10, Version::V11, Version::V12, Version::V13, Version::V14, Version::V15, Version::V16,
    Version::V17, Version::V18, Version::V19, Version::V20, Version::V21, Version::V22, Version::V23, Version::V24,
    Version::V25, Version::V26, Version::V27, Version::V28, Version::V29, Version::V30, Version::V31, Version::V32,
    Version::V33, Version::V34, Version::V35, Version::V36, Version::V37, Version::V38, Version::V39, Version::V40,
];

pub const MASKS: [Mask; 8] = [
    Mask::Checkerboard,
    Mask::HorizontalLines,
    Mask::VerticalLines,
    Mask::DiagonalLines,
    Mask::LargeCheckerboard,
    Mask::Fields,
    Mask::Diamonds,
    Mask::Meadow,
];

pub fn f_version(v: usize) -> Version {
    VERSIONS[v - 1]
}
pub fn version_no(v: Version) -> usize {
    v as usize + 1
}
pub fn f_mask(m: u8) -> Mask {
    MASKS[m as usize]
}
pub fn mask_no(m: Mask) -> u8 {
    m as usize as u8
}
pub fn f_level(l: Level) -> ECL {
    match l {
        Level::L => ECL::L,
        Level::M => ECL::M,
        Level::Q => ECL::Q,
        Level::H => ECL::H,
    }
}
pub fn level_of(e: ECL) -> Level {
    match e {
        ECL::L => Level::L,
        ECL::M => Level::M,
        ECL::Q => Level::Q,
        ECL::H => Level::H,
    }
}
pub fn f_mode(m: Mode) -> FMode {
    match m {
        Mode::Numeric => FMode::Numeric,
        Mode::Alphanumeric => FMode::Alphanumeric,
        Mode::Byte => FMode::Byte,
    }
}
pub fn mode_of(m: FMode) -> Mode {
    match m {
        FMode::Numeric => Mode::Numeric,
        FMode::Alphanumeric => Mode::Alphanumeric,
        FMode::Byte => Mode::Byte,
    }
}

/// The type label fast_qr must give to a module of the given ISO region
pub fn expected_label(r: Region) -> ModuleType {
    match r {
        Region::Encoding => ModuleType::Data,
        Region::Finder => ModuleType::FinderPattern,
        Region::Separator => ModuleType::Empty,
        Region::Timing => ModuleType::Timing,
        Region::Alignment => ModuleType::Alignment,
        Region::Format => ModuleType::Format,
        Region::Version => ModuleType::Version,
        Region::DarkModule => ModuleType::DarkModule,
    }
}

#[derive(Clone, Debug, PartialEq, Eq, Hash, Default)]
pub struct Opts {
    pub mode: Option<Mode>,
    pub level: Option<Level>,
    pub version: Option<usize>,
    pub mask: Option<u8>,
}

#[derive(Clone, PartialEq, Eq, Hash)]
pub struct BuildCase {
    pub input: Vec<u8>,
    pub opts: Opts,
}

impl std::fmt::Debug for BuildCase {
    fn fmt(&self, f: &mut std::fmt::Formatter<'_>) -> std::fmt::Result {
        write!(f, "BuildCase{{len={}, opts={:?}, input={}}}", self.input.len(), self.opts, short_bytes(&self.input))
    }
}

pub fn short_bytes(b: &[u8]) -> String {
    if b.len() <= 48 {
        format!("{:?}", String::from_utf8_lossy(b))
    } else {
        format!("{:?}…(+{} bytes)", String::from_utf8_lossy(&b[..48]), b.len() - 48)
    }
}

impl BuildCase {
    pub fn new(input: Vec<u8>, opts: Opts) -> Self {
        BuildCase { input, opts }
    }

    pub fn to_json(&self) -> Value {
        json!({
            "input_hex": hex(&self.input),
            "input_len": self.input.len(),
            "input_preview": short_bytes(&self.input),
            "mode": self.opts.mode.map(|m| m.name()),
            "level": self.opts.level.map(|l| l.name()),
            "version": self.opts.version,
            "mask": self.opts.mask,
        })
    }

    /// compact form for evidence samples (long payloads abbreviated)
    pub fn to_sample(&self) -> Value {
        let mut v = self.to_json();
        if self.input.len() > 64 {
            let o = v.as_object_mut().unwrap();
            o.insert("input_hex".into(), json!(format!("{}…", hex(&self.input[..32]))));
        }
        v
    }

    pub fn from_json(v: &Value) -> Option<BuildCase> {
        let input = unhex(v.get("input_hex")?.as_str()?)?;
        let mode = match v.get("mode").and_then(|x| x.as_str()) {
            Some("Numeric") => Some(Mode::Numeric),
            Some("Alphanumeric") => Some(Mode::Alphanumeric),
            Some("Byte") => Some(Mode::Byte),
            _ => None,
        };
        let level = match v.get("level").and_then(|x| x.as_str()) {
            Some("L") => Some(Level::L),
            Some("M") => Some(Level::M),
            Some("Q") => Some(Level::Q),
            Some("H") => Some(Level::H),
            _ => None,
        };
        let version = v.get("version").and_then(|x| x.as_u64()).map(|x| x as usize);
        let mask = v.get("mask").and_then(|x| x.as_u64()).map(|x| x as u8);
        Some(BuildCase { input, opts: Opts { mode, level, version, mask } })
    }

    pub fn hash(&self) -> u64 {
        crate::engine::hash_value(&self.to_json())
    }

    pub fn builder(&self) -> QRBuilder {
        let mut b = QRBuilder::new(self.input.clone());
        if let Some(m) = self.opts.mode {
            b.mode(f_mode(m));
        }
        if let Some(l) = self.opts.level {
            b.ecl(f_level(l));
        }
        if let Some(v) = self.opts.version {
            b.version(f_version(v));
        }
        if let Some(m) = self.opts.mask {
            b.mask(f_mask(m));
        }
        b
    }

    /// The mode in effect according to the reference classifier
    pub fn effective_mode(&self) -> Mode {
        self.opts.mode.unwrap_or_else(|| refmodel::tables::classify(&self.input))
    }
    pub fn effective_level(&self) -> Level {
        self.opts.level.unwrap_or(Level::Q)
    }
}

#[derive(Clone, Copy, Debug, PartialEq, Eq)]
pub enum BuildErr {
    TooBig,
    VersionTooSmall,
    /// build() panicked (only produced by props::common::do_build; `build` reports panics as the outer Err)
    Panicked,
}

pub struct Built {
    pub qr: Box<QRCode>,
}

impl Built {
    pub fn size(&self) -> usize {
        self.qr.size
    }
    pub fn values(&self) -> Vec<bool> {
        let n = self.qr.size;
        self.qr.data[..(n * n).min(self.qr.data.len())].iter().map(|m| m.value()).collect()
    }
}

/// Build through the public builder. Outer Err = panic message.
pub fn build(case: &BuildCase) -> Result<Result<Built, BuildErr>, String> {
    let b = case.builder();
    build_with(&b)
}

pub fn build_with(b: &QRBuilder) -> Result<Result<Built, BuildErr>, String> {
    let r = catch(|| b.build().map(Box::new))?;
    Ok(match r {
        Ok(qr) => Ok(Built { qr }),
        Err(e) => {
            let by_match = match e {
                fast_qr::qr::QRCodeError::EncodedData => BuildErr::TooBig,
                fast_qr::qr::QRCodeError::SpecifiedVersion => BuildErr::VersionTooSmall,
            };
            let text = format!("{}", e);
            let by_text = if text.contains("Data too big") {
                Some(BuildErr::TooBig)
            } else if text.contains("Specified version too low") {
                Some(BuildErr::VersionTooSmall)
            } else {
                None
            };
            if by_text != Some(by_match) {
                return Err(format!("error variant {:?} displays as {:?}", by_match, text));
            }
            Err(by_match)
        }
    })
}
