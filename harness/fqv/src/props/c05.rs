//! C05 — smallest sufficient version is chosen; over-capacity is an error, not a panic.

use crate::engine::{fail, panic_sig, Engine, Fail, Job, JobCtx, Obs, Tier};
use crate::ensure;
use crate::fq::{build, version_no, BuildCase, BuildErr, Opts};
use crate::gens::pick;
use proptest::prelude::*;
use refmodel::codec::decode_plain;
use refmodel::tables::*;
use serde_json::{json, Value};

/// deterministic filler of the mode's class; strict: classifies exactly as `mode` (len >= 1 for non-numeric)
fn filler(mode: Mode, len: usize, variant: usize) -> Vec<u8> {
    match mode {
        Mode::Numeric => (0..len).map(|i| b'0' + ((i * 7 + variant) % 10) as u8).collect(),
        Mode::Alphanumeric => {
            let mut v: Vec<u8> = (0..len).map(|i| ALNUM_SET[(i * 13 + variant) % 45]).collect();
            if len > 0 {
                v[len - 1] = b'Z';
            }
            v
        }
        Mode::Byte if variant >= 100 => {
            // lower-case text starting with one of the special tokens (byte-order marks, controls, schemes, escapes ...)
            let mut v: Vec<u8> = (0..len).map(|i| b'a' + ((i * 7 + variant) % 26) as u8).collect();
            let tok = crate::gens::TOKENS[(variant - 100) % crate::gens::TOKENS.len()];
            let k = tok.len().min(len);
            v[..k].copy_from_slice(&tok[..k]);
            if len > 0 && classify(&v) != Mode::Byte {
                v[len - 1] = b'~';
            }
            v
        }
        Mode::Byte => {
            let mut v: Vec<u8> = (0..len).map(|i| (i * 37 + variant * 11 + 1) as u8).collect();
            if len > 0 {
                v[0] = b'a';
            }
            v
        }
    }
}

#[derive(Clone, Debug)]
pub struct Case {
    /// class of the payload characters; None = the natural class of `mode`. With a forced mode any class whose
    /// alphabet is contained in the mode's alphabet is legal (digits forced to Byte, ...).
    pub payload_class: Option<Mode>,
    pub mode: Mode,
    pub level: Level,
    pub len: usize,
    pub forced: Option<usize>,
    pub force_mode: bool,
    pub force_level: bool,
    pub variant: usize,
}

fn to_json(c: &Case) -> Value {
    json!({"payload_class": c.payload_class.map(|m| m.name()), "mode": c.mode.name(), "level": c.level.name(), "len": c.len, "forced_version": c.forced, "force_mode": c.force_mode,
           "force_level": c.force_level, "variant": c.variant})
}

fn from_json(v: &Value) -> Option<Case> {
    Some(Case {
        payload_class: match v.get("payload_class").and_then(|x| x.as_str()) {
            Some("Numeric") => Some(Mode::Numeric),
            Some("Alphanumeric") => Some(Mode::Alphanumeric),
            Some("Byte") => Some(Mode::Byte),
            _ => None,
        },
        mode: match v["mode"].as_str()? {
            "Numeric" => Mode::Numeric,
            "Alphanumeric" => Mode::Alphanumeric,
            _ => Mode::Byte,
        },
        level: match v["level"].as_str()? {
            "L" => Level::L,
            "M" => Level::M,
            "Q" => Level::Q,
            _ => Level::H,
        },
        len: v["len"].as_u64()? as usize,
        forced: v["forced_version"].as_u64().map(|x| x as usize),
        force_mode: v["force_mode"].as_bool().unwrap_or(true),
        force_level: v["force_level"].as_bool().unwrap_or(true),
        variant: v["variant"].as_u64().unwrap_or(0) as usize,
    })
}

pub fn check(c: &Case, obs: &mut Obs) -> Result<(), Fail> {
    // with automatic mode the empty input is Numeric whatever the class
    // a narrower payload class is only legal (and only changes nothing about the mode in effect) when the mode is forced
    let class = match c.payload_class {
        Some(pc) if (pc as usize) < (c.mode as usize) => pc,
        _ => c.mode,
    };
    let force_mode = c.force_mode || class != c.mode || (c.len == 0 && c.mode != Mode::Numeric);
    let force_level = c.force_level || c.level != Level::Q;
    let bc = BuildCase::new(
        filler(class, c.len, c.variant),
        Opts {
            mode: if force_mode { Some(c.mode) } else { None },
            level: if force_level { Some(c.level) } else { None },
            version: c.forced,
            mask: Some((c.len % 8) as u8),
        },
    )
    // builder reuse / related predecessor builds, chosen deterministically from the case
    .with_warm_sel(((c.len * 2654435761usize) >> 7) as u16 ^ (c.variant as u16) << 3);
    let min = min_version(c.level, c.mode, c.len);
    let expect: Result<usize, BuildErr> = match (min, c.forced) {
        (None, _) => Err(BuildErr::TooBig),
        (Some(m), None) => Ok(m),
        (Some(m), Some(f)) if f >= m => Ok(f),
        (Some(_), Some(_)) => Err(BuildErr::VersionTooSmall),
    };
    let got = build(&bc).map_err(|p| Fail {
        sig: panic_sig(&p),
        msg: format!("panic for {} chars {} {} forced version {:?}: {} (expected {:?})", c.len, c.mode.name(), c.level.name(), c.forced, p, expect),
    })?;
    let near = (1..=40).any(|v| {
        let cap = capacity(v, c.level, c.mode);
        c.len + 1 >= cap && c.len <= cap + 1
    });
    if near {
        obs.label("near_threshold");
    }
    match (&got, &expect) {
        (Ok(b), Ok(v)) => {
            let gv = b.qr.version.map(version_no);
            let sv = version_from_size(b.size());
            if gv != Some(*v) || sv != Some(*v) {
                let sig = if c.forced.is_some() { "forced_version_not_used" } else if sv.unwrap_or(0) > *v { "version_wasted" } else { "version_too_small" };
                return fail(
                    sig,
                    format!(
                        "{} chars {} {} forced {:?}: version {:?} (size {}) used, expected {} (capacity of v{} is {})",
                        c.len, c.mode.name(), c.level.name(), c.forced, gv, b.size(), v, v, capacity(*v, c.level, c.mode)
                    ),
                );
            }
            obs.label(if c.forced.is_some() { "ok_forced" } else { "ok_auto" });
            if class != c.mode {
                obs.label("payload_narrower_than_forced_mode");
            }
            // at the capacity of the version used the data must not overflow their codewords: round trip
            if c.len == capacity(*v, c.level, c.mode) || c.len + 1 == capacity(*v, c.level, c.mode) {
                let vals = b.values();
                let d = decode_plain(&vals, b.size());
                let ok = d.as_ref().map(|d| d.parsed.segments.len() == 1 && d.parsed.segments[0].bytes == bc.input).unwrap_or(false);
                ensure!(
                    ok,
                    "overflow_at_capacity",
                    "{} chars {} {} at capacity of v{}: symbol does not decode back to the input ({:?})",
                    c.len, c.mode.name(), c.level.name(), v, d.err()
                );
                obs.label("roundtrip_at_capacity");
            }
        }
        (Err(g), Err(x)) if g == x => {
            obs.label(&format!("err:{:?}", g));
        }
        _ => {
            let gs = match &got {
                Ok(b) => format!("Ok(version {:?})", b.qr.version.map(version_no)),
                Err(e) => format!("Err({:?})", e),
            };
            let sig = match (&got, &expect) {
                (Ok(_), Err(BuildErr::TooBig)) => "accepted_over_capacity",
                (Ok(_), Err(BuildErr::VersionTooSmall)) => "accepted_too_small_forced_version",
                (Err(BuildErr::TooBig), Ok(_)) => "rejected_fitting_input",
                (Err(BuildErr::VersionTooSmall), Ok(_)) => "rejected_sufficient_forced_version",
                _ => "wrong_error_variant",
            };
            return fail(
                sig,
                format!("{} chars {} {} forced version {:?}: got {}, expected {:?} (minimal version {:?})", c.len, c.mode.name(), c.level.name(), c.forced, gs, expect, min),
            );
        }
    }
    if near || expect.is_err() {
        obs.nontrivial(crate::engine::hash_value(&to_json(c)));
    }
    if near {
        obs.sample(&format!("{}|{}", c.mode.name(), if c.forced.is_some() { "forced" } else { "auto" }), || {
            let mut j = to_json(c);
            j["expected"] = json!(format!("{:?}", expect));
            j
        });
    } else if expect.is_err() {
        obs.sample("error_case", || {
            let mut j = to_json(c);
            j["expected"] = json!(format!("{:?}", expect));
            j
        });
    }
    Ok(())
}

/// The same oracle for an arbitrary build case (any payload content, any option combination): used by the
/// content-generating part and by the libFuzzer target. Mode and level in effect come from the reference
/// classifier / the documented default.
pub fn check_bc(bc: &BuildCase, obs: &mut Obs) -> Result<(), Fail> {
    let mode = bc.effective_mode();
    let level = bc.effective_level();
    let len = bc.input.len();
    let min = min_version(level, mode, len);
    let expect: Result<usize, BuildErr> = match (min, bc.opts.version) {
        (None, _) => Err(BuildErr::TooBig),
        (Some(m), None) => Ok(m),
        (Some(m), Some(f)) if f >= m => Ok(f),
        (Some(_), Some(_)) => Err(BuildErr::VersionTooSmall),
    };
    let got = build(bc).map_err(|p| Fail { sig: panic_sig(&p), msg: format!("panic: {} (expected {:?}; {:?})", p, expect, bc) })?;
    let near = (1..=40).any(|v| {
        let cap = capacity(v, level, mode);
        len + 1 >= cap && len <= cap + 1
    });
    match (&got, &expect) {
        (Ok(b), Ok(v)) => {
            let gv = b.qr.version.map(version_no);
            let sv = version_from_size(b.size());
            if gv != Some(*v) || sv != Some(*v) {
                let sig = if bc.opts.version.is_some() { "forced_version_not_used" } else if sv.unwrap_or(0) > *v { "version_wasted" } else { "version_too_small" };
                return fail(sig, format!("version {:?} (size {}) used, expected {} for {} chars {} {} ({:?})", gv, b.size(), v, len, mode.name(), level.name(), bc));
            }
            obs.label(if bc.opts.version.is_some() { "content:ok_forced" } else { "content:ok_auto" });
            if len + 1 >= capacity(*v, level, mode) {
                let vals = b.values();
                let d = decode_plain(&vals, b.size());
                let ok = d.as_ref().map(|d| d.parsed.segments.len() == 1 && d.parsed.segments[0].bytes == bc.input).unwrap_or(false);
                ensure!(ok, "overflow_at_capacity", "at capacity of v{}: symbol does not decode back to the input ({:?}; {:?})", v, d.err(), bc);
            }
        }
        (Err(g), Err(x)) if g == x => {
            obs.label(&format!("content:err:{:?}", g));
        }
        _ => {
            let gs = match &got {
                Ok(b) => format!("Ok(version {:?})", b.qr.version.map(version_no)),
                Err(e) => format!("Err({:?})", e),
            };
            let sig = match (&got, &expect) {
                (Ok(_), Err(BuildErr::TooBig)) => "accepted_over_capacity",
                (Ok(_), Err(BuildErr::VersionTooSmall)) => "accepted_too_small_forced_version",
                (Err(BuildErr::TooBig), Ok(_)) => "rejected_fitting_input",
                (Err(BuildErr::VersionTooSmall), Ok(_)) => "rejected_sufficient_forced_version",
                _ => "wrong_error_variant",
            };
            return fail(sig, format!("got {}, expected {:?} (minimal version {:?}; {:?})", gs, expect, min, bc));
        }
    }
    if near || expect.is_err() {
        obs.nontrivial(bc.hash());
    }
    obs.sample(&format!("content|{}|{}", mode.name(), if expect.is_ok() { "ok" } else { "err" }), || bc.to_sample());
    Ok(())
}

/// The same rule through the other public entry points that build symbols: the JS/WASM
/// exports `qr(content)` / `qr_svg(content, options)` (host-compiled through the guarded hook). They have no mode
/// option, so the mode in effect is the reference classification of the text; `qr` has no options at all (level Q,
/// automatic version). A forced version is used as given or the call fails (`Err` / empty output) - it is never
/// replaced by another version.
#[cfg(not(fast_qr_verif))]
pub fn check_entry(_c: &Case, obs: &mut Obs) -> Result<(), Fail> {
    // the pass over fast_qr built WITHOUT the verification flag has no host-compiled wasm module
    obs.label("wasm_entry_points:not_in_the_plain_build");
    Ok(())
}

#[cfg(fast_qr_verif)]
pub fn check_entry(c: &Case, obs: &mut Obs) -> Result<(), Fail> {
    use fast_qr::verif_wasm_host as wasm;
    let text: Vec<u8> = match c.mode {
        Mode::Byte => (0..c.len).map(|i| b'a' + ((i * 7 + c.variant) % 26) as u8).collect(),
        m => filler(m, c.len, c.variant),
    };
    let mode = classify(&text);
    let level_eff = if c.force_level { c.level } else { Level::Q };
    let expect_for = |level: Level, forced: Option<usize>| -> Result<usize, BuildErr> {
        match (min_version(level, mode, text.len()), forced) {
            (None, _) => Err(BuildErr::TooBig),
            (Some(m), None) => Ok(m),
            (Some(m), Some(f)) if f >= m => Ok(f),
            (Some(_), Some(_)) => Err(BuildErr::VersionTooSmall),
        }
    };
    let content = String::from_utf8(text.clone()).expect("ascii");
    let margin = c.variant % 6;
    // qr_svg
    let svg = crate::engine::catch(|| {
        let mut o = wasm::SvgOptions::new().margin(margin);
        if c.force_level {
            o = o.ecl(crate::fq::f_level(c.level));
        }
        if let Some(v) = c.forced {
            o = o.version(crate::fq::f_version(v));
        }
        if c.variant % 3 == 0 {
            o = o.shape(crate::svgcase::SHAPES[c.variant % 6]);
        }
        wasm::qr_svg(&content, o)
    })
    .map_err(|p| Fail { sig: panic_sig(&p), msg: format!("wasm qr_svg panicked: {} ({:?})", p, c) })?;
    let expect = expect_for(level_eff, c.forced);
    let got: Result<usize, ()> = if svg.is_empty() {
        Err(())
    } else {
        let side: usize = svg
            .split("viewBox=\"")
            .nth(1)
            .and_then(|r| r.split('"').next())
            .and_then(|v| v.split_whitespace().nth(2))
            .and_then(|x| x.parse().ok())
            .ok_or_else(|| Fail { sig: "wasm_viewbox".into(), msg: format!("qr_svg output has no viewBox ({:?})", c) })?;
        ensure!(side >= 21 + 2 * margin && (side - 2 * margin - 17) % 4 == 0, "wasm_viewbox", "qr_svg viewBox side {} with margin {} is no symbol size ({:?})", side, margin, c);
        Ok((side - 2 * margin - 17) / 4)
    };
    match (&got, &expect) {
        (Ok(g), Ok(v)) if g == v => obs.label(if c.forced.is_some() { "wasm_svg:ok_forced" } else { "wasm_svg:ok_auto" }),
        (Err(()), Err(_)) => obs.label("wasm_svg:refused"),
        _ => {
            let sig = match (&got, &expect) {
                (Ok(_), Err(BuildErr::VersionTooSmall)) => "wasm:accepted_too_small_forced_version",
                (Ok(_), Err(_)) => "wasm:accepted_over_capacity",
                (Err(()), Ok(_)) => "wasm:rejected_fitting_input",
                _ if c.forced.is_some() => "wasm:forced_version_not_used",
                _ => "wasm:wrong_version",
            };
            return fail(sig, format!("wasm qr_svg, {} chars {} level {} forced version {:?}: got {:?} (version or refusal), expected {:?}", text.len(), mode.name(), level_eff.name(), c.forced, got, expect));
        }
    }
    // qr(content): level Q, automatic version
    let bytes = crate::engine::catch(|| wasm::qr(&content)).map_err(|p| Fail { sig: panic_sig(&p), msg: format!("wasm qr panicked: {} ({:?})", p, c) })?;
    let expect_q = expect_for(Level::Q, None);
    let got_q: Result<usize, ()> = if bytes.is_empty() {
        Err(())
    } else {
        let n = (bytes.len() as f64).sqrt().round() as usize;
        ensure!(n * n == bytes.len() && n >= 21 && (n - 17) % 4 == 0, "wasm_qr_size", "wasm qr returned {} modules, not a symbol size ({:?})", bytes.len(), c);
        Ok((n - 17) / 4)
    };
    match (&got_q, &expect_q) {
        (Ok(g), Ok(v)) if g == v => {}
        (Err(()), Err(_)) => {}
        _ => return fail("wasm_qr:wrong_version", format!("wasm qr, {} chars {}: got {:?}, expected {:?} at level Q", text.len(), mode.name(), got_q, expect_q)),
    }
    let near = (1..=40).any(|v| {
        let cap = capacity(v, level_eff, mode);
        text.len() + 1 >= cap && text.len() <= cap + 1
    });
    if near || expect.is_err() {
        obs.nontrivial(crate::engine::hash_value(&to_json(c)) ^ 0x77);
    }
    obs.sample(&format!("entry_points|{}", if expect.is_ok() { "ok" } else { "refused" }), || {
        let mut j = to_json(c);
        j["entry_points"] = json!(true);
        j["expected"] = json!(format!("{:?}", expect));
        j
    });
    Ok(())
}

pub fn replay(_e: &Engine, case: &Value, obs: &mut Obs) -> Result<(), Fail> {
    if case.get("input_hex").is_some() {
        let bc = BuildCase::from_json(case).ok_or_else(|| Fail { sig: "bad_replay".into(), msg: "cannot parse case".into() })?;
        return check_bc(&bc, obs);
    }
    let c = from_json(case).ok_or_else(|| Fail { sig: "bad_replay".into(), msg: "cannot parse case".into() })?;
    if case.get("entry_points").is_some() {
        return check_entry(&c, obs);
    }
    check(&c, obs)
}

pub fn run(e: &'static Engine) {
    e.set_rule(
        "Enumerated: every length 0..=7200 x 3 modes x 4 levels with automatic version (mode/level forced or automatic \
         alternating; payload of the mode's class, and with a forced mode also of every narrower class: digits forced to \
         Alphanumeric or Byte, alphanumeric text forced to Byte) -> result must be Ok(min version by the capacity formula) or Err(data too big) \
         exactly when nothing fits; for every (mode, level, version) the lengths cap-1, cap, cap+1 x forced version in \
         {v-1, v, v+1, 1, 40} (thorough: all 40 forced versions); lengths far beyond capacity (7090..2^20) auto and forced V40. \
         Generated (thorough): random (mode, level, length, forced version). Oracle: capacity formula 4 + cci + payload bits <= \
         8 x data codewords from the reference model; error variant by match and by Display text; no panic under overflow checks; \
         at cap and cap-1 of the version used the symbol is round-tripped. Non-trivial: length within +-1 of a threshold, or an \
         error result; distinct by case.",
    );
    e.extend_rule("part other_entry_points (wasm qr / qr_svg with forced versions min-2..min+1); part thresholds_special_tokens (every special token at every Byte threshold -1..+4 of V1-V8, sampled above); class runs in long_mixed_class.");
    e.assume("reference capacity = geometry-derived total codewords minus typed Table 9 EC totals; equals qrcode crate's max_len for all 160 cells (self-test)");
    crate::engine::run_regress(e, &|c, o| replay(e, c, o));
    let mut jobs: Vec<Job> = Vec::new();
    // (1) all lengths, automatic version; chunked so that long lengths are spread
    let chunks = 96usize;
    for ch in 0..chunks {
        jobs.push(Box::new(move |jc: &mut JobCtx| {
            for len in (0..=7200usize).filter(|l| l % chunks == ch) {
                for (mi, &mode) in MODES.iter().enumerate() {
                    for (li, &level) in LEVELS.iter().enumerate() {
                        let k = len + mi + li;
                        let c = Case { payload_class: if k % 4 == 1 { Some(Mode::from_index((len + li) % 3)) } else { None }, mode, level, len, forced: None, force_mode: k % 2 == 0, force_level: k % 3 != 0, variant: k % 5 };
                        jc.run_case(&c, to_json, |c, o| {
                            o.label("part:all_lengths_auto");
                            check(c, o)
                        });
                    }
                }
            }
        }));
    }
    // (2) thresholds x forced versions
    for v in 1..=40usize {
        jobs.push(Box::new(move |jc: &mut JobCtx| {
            for &mode in MODES.iter() {
                for &level in LEVELS.iter() {
                    let cap = capacity(v, level, mode);
                    for len in [cap.saturating_sub(1), cap, cap + 1] {
                        let forced: Vec<usize> = if jc.engine.tier == Tier::Thorough {
                            (1..=40).collect()
                        } else {
                            let mut f = vec![v, 1, 40];
                            if v > 1 {
                                f.push(v - 1);
                            }
                            if v < 40 {
                                f.push(v + 1);
                            }
                            f
                        };
                        for f in forced {
                            let c = Case { payload_class: if (len + f) % 3 == 0 { Some(Mode::from_index(f % 3)) } else { None }, mode, level, len, forced: Some(f), force_mode: (len + f) % 2 == 0, force_level: true, variant: f % 5 };
                            jc.run_case(&c, to_json, |c, o| {
                                o.label("part:thresholds_forced");
                                check(c, o)
                            });
                        }
                    }
                }
            }
        }));
    }
    // (3) far beyond capacity
    jobs.push(Box::new(move |jc: &mut JobCtx| {
        for len in [7090usize, 7201, 8000, 10_000, 65_535, 65_536, 100_000, 1 << 20] {
            for &mode in MODES.iter() {
                for &level in LEVELS.iter() {
                    for forced in [None, Some(40), Some(1)] {
                        let c = Case { payload_class: Some(Mode::Numeric), mode, level, len, forced, force_mode: len % 2 == 0, force_level: true, variant: 0 };
                        jc.run_case(&c, to_json, |c, o| {
                            o.label("part:far_beyond");
                            check(c, o)
                        });
                    }
                }
            }
        }
    }));
    e.par(jobs);
    // (4) generated
    let total: u32 = e.tier.pick(2000, 100_000);
    let shards = e.tier.pick(16u32, 64);
    let mut jobs: Vec<Job> = Vec::new();
    for _ in 0..shards {
        jobs.push(Box::new(move |jc: &mut JobCtx| {
            let strat = (0usize..3, 0usize..4, any::<u16>(), prop_oneof![Just(None), (1usize..=40).prop_map(Some)], any::<u16>(), 0usize..5, any::<bool>(), any::<bool>(), prop_oneof![Just(None), (0usize..3).prop_map(|i| Some(Mode::from_index(i)))])
                .prop_map(|(mi, li, vsel, forced, off, variant, fm, fl, pclass)| {
                    let mode = Mode::from_index(mi);
                    let level = Level::from_index(li);
                    // length near the capacity of a random version, or anywhere
                    let v = 1 + pick(vsel, 40);
                    let cap = capacity(v, level, mode);
                    let len = match off % 8 {
                        0 => cap,
                        1 => cap + 1,
                        2 => cap.saturating_sub(1),
                        3 => pick(off, 7300),
                        4 => pick(off, cap + 1),
                        5 => cap + 2,
                        6 => cap.saturating_sub(2),
                        _ => pick(off, 9000),
                    };
                    Case { payload_class: pclass, mode, level, len, forced, force_mode: fm, force_level: fl, variant }
                });
            jc.run_prop(1 << 20, &strat, total / shards, to_json, |c, o| {
                o.label("part:generated");
                check(c, o)
            });
        }));
    }
    e.par(jobs);
    // (5) arbitrary contents and option combinations (incl. over-capacity inputs, forced modes over narrower classes)
    let total: u32 = e.tier.pick(16000, 240_000);
    let shards = e.tier.pick(32u32, 96);
    let mut jobs: Vec<Job> = Vec::new();
    for _ in 0..shards {
        jobs.push(Box::new(move |jc: &mut JobCtx| {
            let strat = super::c10::case_strategy();
            jc.run_prop(2 << 20, &strat, total / shards / 2, |(c, _)| c.to_json(), |(c, _), o| {
                o.label("part:arbitrary_content");
                check_bc(c, o)
            });
            let strat = crate::gens::padded_forced();
            jc.run_prop(3 << 20, &strat, total / shards / 4, |(c, _, _)| c.to_json(), |(c, _, _), o| {
                o.label("part:padded_forced_version");
                check_bc(c, o)
            });
            let strat = crate::gens::any_case();
            jc.run_prop(4 << 20, &strat, total / shards / 4, |(c, _, _)| c.to_json(), |(c, _, _), o| {
                o.label("part:generated_any");
                check_bc(c, o)
            });
            // long inputs of a compact class with one character of another class somewhere (often at the very end): the
            // mode in effect, hence capacity rule, version and error kind, depends on every byte of the input
            let strat = (prop_oneof![super::c09::long_with_intruder(), super::c09::class_runs()], prop_oneof![Just(None), (0usize..4).prop_map(|l| Some(Level::from_index(l)))], any::<u16>()).prop_map(|(input, level, sel)| {
                BuildCase::new(input, Opts { mode: None, level, version: None, mask: Some((sel % 8) as u8) }).with_warm_sel(sel)
            });
            jc.run_prop(5 << 20, &strat, total / shards / 8, |c| c.to_json(), |c, o| {
                o.label("part:long_mixed_class");
                check_bc(c, o)
            });
        }));
    }
    e.par(jobs);
    // (6) the same rule through the JS/WASM exports; forced versions around the minimal one
    let total: u32 = e.tier.pick(4800, 96_000);
    let shards = e.tier.pick(16u32, 64);
    let mut jobs: Vec<Job> = Vec::new();
    for _ in 0..shards {
        jobs.push(Box::new(move |jc: &mut JobCtx| {
            let strat = (0usize..3, 0usize..4, any::<u16>(), 0usize..8, any::<u16>(), 0usize..30, any::<bool>()).prop_map(|(mi, li, vsel, fsel, off, variant, fl)| {
                let mode = Mode::from_index(mi);
                let level = Level::from_index(li);
                let level_eff = if fl { level } else { Level::Q };
                // small versions more often (cost), every version reachable
                let v = if vsel % 4 == 0 { 1 + pick(vsel >> 2, 40) } else { 1 + pick(vsel >> 2, 10) };
                let cap = capacity(v, level_eff, mode);
                let len = match off % 6 {
                    0 => cap,
                    1 => cap + 1,
                    2 => cap.saturating_sub(1),
                    3 => pick(off, cap + 1),
                    4 => cap + 2,
                    _ => pick(off, 7300),
                };
                let forced = match fsel {
                    0 | 1 => None,
                    2 => Some(v),
                    3 => Some((v + 1).min(40)),
                    4 => Some(v.saturating_sub(1).max(1)),
                    5 => Some(v.saturating_sub(2).max(1)),
                    6 => Some(1 + pick(off.rotate_left(5), 40)),
                    _ => Some(1),
                };
                Case { payload_class: None, mode, level, len, forced, force_mode: false, force_level: fl, variant }
            });
            jc.run_prop(6 << 20, &strat, total / shards, |c| { let mut j = to_json(c); j["entry_points"] = json!(true); j }, |c, o| {
                o.label("part:other_entry_points");
                check_entry(c, o)
            });
        }));
    }
    e.par(jobs);
    // (7) Byte payloads that start with a special token (byte-order mark, line end, NUL, scheme, escape, ill-formed
    // UTF-8 ...) at and just above every capacity threshold: the version depends on the LENGTH only, whatever the bytes
    let mut jobs: Vec<Job> = Vec::new();
    let versions: Vec<usize> = if e.tier == Tier::Thorough { (1..=40).collect() } else { vec![1, 2, 3, 4, 5, 6, 7, 8, 9, 10, 26, 27, 40] };
    for v in versions {
        jobs.push(Box::new(move |jc: &mut JobCtx| {
            let ntok = crate::gens::TOKENS.len();
            for &level in LEVELS.iter() {
                let cap = capacity(v, level, Mode::Byte);
                for d in 0..6usize {
                    let len = (cap + d).saturating_sub(1);
                    let toks: Vec<usize> = if v <= 8 || jc.engine.tier == Tier::Thorough { (0..ntok).collect() } else { (0..4).map(|k| (v * 7 + d * 13 + k * 17 + level as usize) % ntok).chain([0usize]).collect() };
                    for t in toks {
                        let forced = match (t + d) % 3 {
                            0 => Some(v),
                            _ => None,
                        };
                        let c = Case { payload_class: None, mode: Mode::Byte, level, len, forced, force_mode: (t + d) % 2 == 0, force_level: true, variant: 100 + t };
                        jc.run_case(&c, to_json, |c, o| {
                            o.label("part:thresholds_special_tokens");
                            check(c, o)
                        });
                    }
                }
            }
        }));
    }
    e.par(jobs);
    e.set_exhaustive(true, "every payload length 0..=7200 x 3 modes x 4 levels with automatic version; every threshold +-1 x the listed forced versions");
}
