//! Helpers shared by the property modules.

use crate::engine::{Fail, Obs};
use crate::fq::{build, BuildCase, BuildErr, Built};
use crate::gens::version_band;

/// Build for properties that only speak about symbols that were returned. A documented error *and a
/// panic* both mean "no symbol": whether the error is the right one is C05's question, and a panic on a
/// valid input is a violation of C10 (totality) — not of a property quantified over returned symbols.
pub fn do_build(case: &BuildCase) -> Result<Result<Built, BuildErr>, Fail> {
    match build(case) {
        Ok(r) => Ok(r),
        Err(_panic) => Ok(Err(BuildErr::Panicked)),
    }
}

/// Standard labels for a build case
pub fn label_case(obs: &mut Obs, case: &BuildCase, fam: &str, built: Option<&Built>) {
    obs.label(&format!("family:{}", fam));
    obs.label(&format!("forced_mode:{}", case.opts.mode.is_some()));
    obs.label(&format!("forced_version:{}", case.opts.version.is_some()));
    obs.label(&format!("forced_level:{}", case.opts.level.is_some()));
    obs.label(&format!("mask:{}", case.opts.mask.map(|m| m.to_string()).unwrap_or_else(|| "auto".into())));
    if case.input.is_empty() {
        obs.label("len:0");
    }
    if case.warm.is_some() {
        obs.label("history:builder_reused");
    }
    if case.pred != 0 {
        obs.label(&format!("history:predecessor_{}", case.pred));
    }
    if let Some(b) = built {
        if let Some(v) = refmodel::tables::version_from_size(b.size()) {
            obs.label(&format!("band:{}", version_band(v)));
            let mode = case.effective_mode();
            let level = case.effective_level();
            let cap = refmodel::tables::capacity(v, level, mode);
            if case.input.len() == cap {
                obs.label("at_capacity");
            }
            obs.label(&format!("level:{}", level.name()));
            obs.label(&format!("mode:{}", mode.name()));
        }
    }
}

use crate::engine::{Engine, Job, JobCtx};
use proptest::strategy::Strategy;

/// Generated parts shared by the matrix-level properties, run after each property's own enumerated part:
/// fully random valid cases, automatic-mask builds in small/medium versions, short payloads in forced larger
/// versions (pure padding blocks, block-boundary endings), and steered matrices. `salt_base` keeps the streams apart
/// from the property's own parts.
pub fn standard_parts<F>(e: &'static Engine, quick: u32, thorough: u32, check: F)
where
    F: Fn(&BuildCase, &str, &mut Obs) -> Result<(), Fail> + Send + Sync + Copy + 'static,
{
    let total: u32 = e.tier.pick(quick, thorough);
    let shards = e.tier.pick(32u32, 96);
    let per = (total / shards).max(4);
    let mut jobs: Vec<Job> = Vec::new();
    for _ in 0..shards {
        jobs.push(Box::new(move |jc: &mut JobCtx| {
            let strat = crate::gens::any_case();
            jc.run_prop(11 << 20, &strat, per * 2 / 5, |(c, _, _)| c.to_json(), |(c, fam, _), o| {
                o.label("part:generated_any");
                check(c, fam, o)
            });
            let strat = crate::gens::auto_mask_small();
            jc.run_prop(12 << 20, &strat, per / 5, |(c, _, _)| c.to_json(), |(c, fam, _), o| {
                o.label("part:auto_mask_small");
                check(c, fam, o)
            });
            let strat = crate::gens::padded_forced();
            jc.run_prop(13 << 20, &strat, per / 5, |(c, _, _)| c.to_json(), |(c, fam, _), o| {
                o.label("part:padded_forced_version");
                check(c, fam, o)
            });
            let strat = crate::gens::steered_case(1, 40, true);
            jc.run_prop(14 << 20, &strat, per / 5, |(c, _)| c.to_json(), |(c, fam), o| {
                o.label("part:steered");
                check(c, fam, o)
            });
            // data blocks of generated kinds (padding look-alikes, zero, copies, multiples of the generator ...)
            let strat = crate::gens::block_lookalike_case();
            jc.run_prop(16 << 20, &strat, per / 5, |(c, _)| c.to_json(), |(c, fam), o| {
                o.label("part:block_lookalikes");
                check(c, fam, o)
            });
            // realistic payloads with everything automatic (or only level / mask chosen)
            let strat = (crate::gens::realistic_payload(), proptest::prelude::any::<u16>()).prop_map(|(input, sel)| {
                let level = if sel & 1 == 0 { None } else { Some(refmodel::tables::Level::from_index((sel as usize >> 1) % 4)) };
                let mask = if sel & 8 == 0 { None } else { Some(((sel >> 4) % 8) as u8) };
                BuildCase::new(input, crate::fq::Opts { mode: None, level, version: None, mask }).with_warm_sel(sel)
            });
            jc.run_prop(15 << 20, &strat, per / 5, |c| c.to_json(), |c, o| {
                o.label("part:realistic_payloads");
                check(c, "realistic", o)
            });
        }));
    }
    e.par(jobs);
    extreme_parts(e, check);
}

/// Enumerated extreme textures (see gens::extreme_textures), spread over the workers.
pub fn extreme_parts<F>(e: &'static Engine, check: F)
where
    F: Fn(&BuildCase, &str, &mut Obs) -> Result<(), Fail> + Send + Sync + Copy + 'static,
{
    let cases = std::sync::Arc::new(crate::gens::extreme_textures(e.tier == crate::engine::Tier::Quick));
    let chunks = 64usize;
    let mut jobs: Vec<Job> = Vec::new();
    for ch in 0..chunks {
        let cases = cases.clone();
        jobs.push(Box::new(move |jc: &mut JobCtx| {
            for c in cases.iter().skip(ch).step_by(chunks) {
                jc.run_case(c, |c| c.to_json(), |c, o| {
                    o.label("part:extreme_textures");
                    check(c, "extreme_texture", o)
                });
            }
        }));
    }
    e.par(jobs);
}
