//! Helpers shared by the property modules.

use crate::engine::{panic_sig, Fail, Obs};
use crate::fq::{build, BuildCase, BuildErr, Built};
use crate::gens::version_band;

/// Build; a panic becomes a failure with a location signature.
pub fn do_build(case: &BuildCase) -> Result<Result<Built, BuildErr>, Fail> {
    build(case).map_err(|p| Fail { sig: panic_sig(&p), msg: format!("build panicked: {} (case {:?})", p, case) })
}

/// Standard labels for a build case
pub fn label_case(obs: &mut Obs, case: &BuildCase, fam: &str, built: Option<&Built>) {
    obs.label(&format!("family:{}", fam));
    obs.label(&format!("forced_mode:{}", case.opts.mode.is_some()));
    obs.label(&format!("forced_version:{}", case.opts.version.is_some()));
    obs.label(&format!("forced_level:{}", case.opts.level.is_some()));
    obs.label(&format!("mask:{}", case.opts.mask.map(|m| m.to_string()).unwrap_or_else(|| "auto".into())));
    if case.input.is_empty() {
        obs.label("len:0");
    }
    if let Some(b) = built {
        if let Some(v) = refmodel::tables::version_from_size(b.size()) {
            obs.label(&format!("band:{}", version_band(v)));
            let mode = case.effective_mode();
            let level = case.effective_level();
            let cap = refmodel::tables::capacity(v, level, mode);
            if case.input.len() == cap {
                obs.label("at_capacity");
            }
            obs.label(&format!("level:{}", level.name()));
            obs.label(&format!("mode:{}", mode.name()));
        }
    }
}
