//! Helpers shared by the property modules.

use crate::engine::{Fail, Obs};
use crate::fq::{build, BuildCase, BuildErr, Built};
use crate::gens::version_band;

/// Build for properties that only speak about symbols that were returned. A documented error *and a
/// panic* both mean "no symbol": whether the error is the right one is C05's question, and a panic on a
/// valid input is a violation of C10 (totality) — not of a property quantified over returned symbols.
pub fn do_build(case: &BuildCase) -> Result<Result<Built, BuildErr>, Fail> {
    match build(case) {
        Ok(r) => Ok(r),
        Err(_panic) => Ok(Err(BuildErr::Panicked)),
    }
}

/// Standard labels for a build case
pub fn label_case(obs: &mut Obs, case: &BuildCase, fam: &str, built: Option<&Built>) {
    obs.label(&format!("family:{}", fam));
    obs.label(&format!("forced_mode:{}", case.opts.mode.is_some()));
    obs.label(&format!("forced_version:{}", case.opts.version.is_some()));
    obs.label(&format!("forced_level:{}", case.opts.level.is_some()));
    obs.label(&format!("mask:{}", case.opts.mask.map(|m| m.to_string()).unwrap_or_else(|| "auto".into())));
    if case.input.is_empty() {
        obs.label("len:0");
    }
    if let Some(b) = built {
        if let Some(v) = refmodel::tables::version_from_size(b.size()) {
            obs.label(&format!("band:{}", version_band(v)));
            let mode = case.effective_mode();
            let level = case.effective_level();
            let cap = refmodel::tables::capacity(v, level, mode);
            if case.input.len() == cap {
                obs.label("at_capacity");
            }
            obs.label(&format!("level:{}", level.name()));
            obs.label(&format!("mode:{}", mode.name()));
        }
    }
}
