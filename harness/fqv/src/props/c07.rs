//! C07 — EC codewords are the true GF(256) polynomial remainder for any block content.
//! Drives the guarded re-exports `verif_hooks::division` and `verif_hooks::generator`.

use crate::engine::{catch, fail, hex, panic_sig, unhex, Engine, Fail, Job, JobCtx, Obs, Tier};
use crate::ensure;
use crate::fq::{f_level, f_version};
use fast_qr::verif_hooks;
use proptest::collection::vec;
use proptest::prelude::*;
use refmodel::gf;
use refmodel::tables::*;
use serde_json::{json, Value};
use std::collections::BTreeMap;

#[derive(Clone, Debug)]
pub struct Case {
    pub version: usize,
    pub level: Level,
    pub data: Vec<u8>,
    pub fam: &'static str,
}

pub fn to_json(c: &Case) -> Value {
    json!({"version": c.version, "level": c.level.name(), "data_hex": hex(&c.data), "data_len": c.data.len(), "family": c.fam})
}

fn level_from(s: &str) -> Level {
    match s {
        "L" => Level::L,
        "M" => Level::M,
        "Q" => Level::Q,
        _ => Level::H,
    }
}

/// EC codewords fast_qr computes for one block with the generator it selects for (version, level)
fn fq_ec(version: usize, level: Level, data: &[u8]) -> Result<Vec<u8>, String> {
    catch(|| {
        let g = verif_hooks::generator(f_version(version), f_level(level));
        let out = verif_hooks::division(data, g);
        let ec = g.len() - 1;
        out[255 - ec..255].to_vec()
    })
}

pub fn check_generator(version: usize, level: Level) -> Result<(), Fail> {
    let g = catch(|| verif_hooks::generator(f_version(version), f_level(level)).to_vec())
        .map_err(|p| Fail { sig: panic_sig(&p), msg: format!("generator accessor panicked for v{} {}: {}", version, level.name(), p) })?;
    let ec = ec_per_block(version, level);
    ensure!(
        g.len() == ec + 1,
        "generator_degree",
        "v{} {}: generator has degree {} but ISO Table 9 prescribes {} EC codewords per block",
        version,
        level.name(),
        g.len().wrapping_sub(1),
        ec
    );
    let want = gf::generator(ec);
    for k in 0..=ec {
        let coef = gf::alpha_pow(g[k] as usize);
        ensure!(
            coef == want[k] && (g[k] as usize) < 255,
            "generator_coefficient",
            "v{} {} (degree {}): coefficient {} is alpha^{} = {:#04x}, but prod (x - alpha^i) has {:#04x}",
            version,
            level.name(),
            ec,
            k,
            g[k],
            coef,
            want[k]
        );
    }
    Ok(())
}

pub fn check(c: &Case, obs: &mut Obs) -> Result<(), Fail> {
    let ec = ec_per_block(c.version, c.level);
    let got = fq_ec(c.version, c.level, &c.data).map_err(|p| Fail {
        sig: panic_sig(&p),
        msg: format!("division panicked for a {}-byte block with the v{} {} generator: {}", c.data.len(), c.version, c.level.name(), p),
    })?;
    let want = gf::rs_remainder(&c.data, ec);
    if got != want {
        let first = got.iter().zip(want.iter()).position(|(a, b)| a != b);
        return fail(
            "remainder",
            format!(
                "block of {} bytes ({}), generator of v{} {} (degree {}): EC codewords {:02x?} differ from data(x)*x^{} mod g(x) = {:02x?} (first difference at {:?})",
                c.data.len(), c.fam, c.version, c.level.name(), ec, got, ec, want, first
            ),
        );
    }
    obs.label(&format!("family:{}", c.fam));
    obs.label(&format!("degree:{}", ec));
    let nz = c.data.iter().filter(|&&b| b != 0).count();
    let has_zero_among_nonzero = nz > 0 && nz < c.data.len();
    if has_zero_among_nonzero || c.fam == "basis" {
        let mut key = c.data.clone();
        key.push(ec as u8);
        obs.nontrivial(crate::engine::hash_bytes(&key));
    }
    Ok(())
}

/// A HISTORY of divisions on one thread: one division, then `n` further divisions that change the generator every time
/// (alternating between two generators) over dividends of one family, then a last division. `n` is drawn around 2^k
/// (a counter, epoch or generation number kept between calls wraps there). Every result must be the true remainder.
#[derive(Clone, Debug)]
pub struct DivHistory {
    pub gens: [(usize, Level); 3],
    pub x: Vec<u8>,
    pub n: usize,
    /// dividends of the calls in between: 0 all zero; 1 zero except the last byte; 2 the first dividend again; 3 generated
    pub filler: u8,
    /// generator of the last call: 0 the one used by the call before it; 1 the third generator; 2 the first call's
    pub last_gen: u8,
    pub y: Option<Vec<u8>>,
}

pub fn dh_json(h: &DivHistory) -> Value {
    json!({"division_history": true, "generators": h.gens.iter().map(|(v, l)| json!([v, l.name()])).collect::<Vec<_>>(), "x_hex": hex(&h.x), "calls_between": h.n,
           "filler": h.filler, "last_generator": h.last_gen, "y_hex": h.y.as_ref().map(|y| hex(y))})
}

fn dh_from(v: &Value) -> Option<DivHistory> {
    let g = v.get("generators")?.as_array()?;
    let mut gens = [(1usize, Level::L); 3];
    for (i, x) in g.iter().take(3).enumerate() {
        gens[i] = (x.get(0)?.as_u64()? as usize, level_from(x.get(1)?.as_str()?));
    }
    Some(DivHistory {
        gens,
        x: unhex(v.get("x_hex")?.as_str()?)?,
        n: v.get("calls_between")?.as_u64()? as usize,
        filler: v.get("filler")?.as_u64()? as u8,
        last_gen: v.get("last_generator")?.as_u64()? as u8,
        y: v.get("y_hex").and_then(|y| y.as_str()).and_then(unhex),
    })
}

pub fn check_div_history(h: &DivHistory, obs: &mut Obs) -> Result<(), Fail> {
    let fit = |d: &[u8], (v, l): (usize, Level)| -> Vec<u8> {
        let len = layout(v, l).short_data;
        (0..len).map(|i| d.get(i).copied().unwrap_or(0)).collect()
    };
    let one = |g: (usize, Level), data: Vec<u8>, what: String| -> Result<(), Fail> {
        let ec = ec_per_block(g.0, g.1);
        let got = fq_ec(g.0, g.1, &data).map_err(|p| Fail { sig: panic_sig(&p), msg: format!("{}: division panicked: {}", what, p) })?;
        let want = gf::rs_remainder(&data, ec);
        if got != want {
            return fail("remainder_after_history", format!("{}: block {:02x?} with the generator of v{} {} (degree {}): EC codewords {:02x?}, true remainder {:02x?} ({})", what, data, g.0, g.1.name(), ec, got, want, dh_json(h)));
        }
        Ok(())
    };
    one(h.gens[0], fit(&h.x, h.gens[0]), "first call".into())?;
    let mut last = h.gens[0];
    for i in 0..h.n {
        let g = if i % 2 == 0 { h.gens[1] } else { h.gens[0] };
        let data = match h.filler {
            0 => fit(&[], g),
            1 => {
                let mut d = fit(&[], g);
                if let Some(b) = d.last_mut() {
                    *b = 1 + (i % 255) as u8;
                }
                d
            }
            2 => fit(&h.x, g),
            _ => {
                let mut d = fit(&[], g);
                let mut s = crate::engine::hash_bytes(&[(i & 255) as u8, (i >> 8) as u8, h.filler]);
                for b in d.iter_mut() {
                    s = s.wrapping_mul(6364136223846793005).wrapping_add(1442695040888963407);
                    *b = (s >> 33) as u8;
                }
                d
            }
        };
        one(g, data, format!("call {} of {} in between", i + 1, h.n))?;
        last = g;
    }
    let g = match h.last_gen {
        0 => last,
        1 => h.gens[2],
        _ => h.gens[0],
    };
    let y = h.y.clone().unwrap_or_else(|| h.x.clone());
    one(g, fit(&y, g), "last call".into())?;
    obs.label(&format!("calls_between:{}", match h.n { 0..=9 => "0-9", 10..=200 => "10-200", 201..=300 => "around_2^8", 301..=1100 => "around_2^9_2^10", _ => "around_2^16" }));
    obs.label(&format!("filler:{}", ["all_zero", "last_byte_only", "first_dividend", "generated"][h.filler as usize % 4]));
    if h.n >= 2 {
        obs.nontrivial(crate::engine::hash_value(&dh_json(h)));
    }
    obs.sample(&format!("division_history|{}", h.filler), || dh_json(h));
    Ok(())
}

pub fn div_history_strategy(deep: bool) -> BoxedStrategy<DivHistory> {
    // generators of small blocks (cheap reference division), of three different degrees
    let small: Vec<(usize, Level)> = {
        let mut seen = std::collections::BTreeSet::new();
        let mut out = Vec::new();
        for v in 1..=12usize {
            for &l in &LEVELS {
                if layout(v, l).short_data <= 48 && seen.insert(ec_per_block(v, l)) {
                    out.push((v, l));
                }
            }
        }
        out
    };
    let k = small.len();
    let n = if deep {
        prop_oneof![2 => 0usize..10, 3 => (0usize..5).prop_map(|d| 126 + d), 6 => (0usize..7).prop_map(|d| 252 + d), 3 => (0usize..5).prop_map(|d| 510 + d), 2 => (0usize..5).prop_map(|d| 1022 + d), 2 => (0usize..5).prop_map(|d| 65534 + d), 1 => 10usize..3000].boxed()
    } else {
        prop_oneof![2 => 0usize..10, 3 => (0usize..5).prop_map(|d| 126 + d), 6 => (0usize..7).prop_map(|d| 252 + d), 3 => (0usize..5).prop_map(|d| 510 + d), 2 => (0usize..5).prop_map(|d| 1022 + d), 1 => 10usize..1200].boxed()
    };
    (0usize..k, 1usize..k, 1usize..k, vec(any::<u8>(), 48), n, prop_oneof![3 => Just(0u8), 1 => Just(1u8), 1 => Just(2u8), 1 => Just(3u8)], 0u8..3, prop_oneof![2 => Just(None), 1 => vec(any::<u8>(), 48).prop_map(Some)])
        .prop_map(move |(a, db, dc, x, n, filler, last_gen, y)| {
            let b = (a + db) % k;
            let mut c = (a + dc) % k;
            if c == b {
                c = (c + 1) % k;
                if c == a {
                    c = (c + 1) % k;
                }
            }
            DivHistory { gens: [small[a], small[b], small[c]], x, n, filler, last_gen, y }
        })
        .boxed()
}

pub fn replay(_e: &Engine, case: &Value, obs: &mut Obs) -> Result<(), Fail> {
    if case.get("input_hex").is_some() {
        let bc = crate::fq::BuildCase::from_json(case).ok_or_else(|| Fail { sig: "bad_replay".into(), msg: "cannot parse case".into() })?;
        return check_symbol(&bc, "replay", obs);
    }
    let bad = || Fail { sig: "bad_replay".into(), msg: "cannot parse case".into() };
    if case.get("division_history").is_some() {
        return check_div_history(&dh_from(case).ok_or_else(bad)?, obs);
    }
    let version = case["version"].as_u64().ok_or_else(bad)? as usize;
    let level = level_from(case["level"].as_str().ok_or_else(bad)?);
    if case.get("data_hex").is_none() {
        return check_generator(version, level);
    }
    let data = unhex(case["data_hex"].as_str().ok_or_else(bad)?).ok_or_else(bad)?;
    check_generator(version, level)?;
    check(&Case { version, level, data, fam: "replay" }, obs)
}

/// distinct (data_len, ec) pairs in use -> a representative (version, level)
fn pairs() -> BTreeMap<(usize, usize), (usize, Level)> {
    let mut m = BTreeMap::new();
    for v in 1..=40 {
        for &l in &LEVELS {
            let lay = layout(v, l);
            m.entry((lay.short_data, lay.ec)).or_insert((v, l));
            if lay.long_blocks > 0 {
                m.entry((lay.long_data, lay.ec)).or_insert((v, l));
            }
        }
    }
    m
}

fn block_strategy(version: usize, level: Level, len: usize) -> BoxedStrategy<Case> {
    let ec = ec_per_block(version, level);
    let g = gf::generator(ec);
    let g2 = g.clone();
    prop_oneof![
        4 => vec(any::<u8>(), len).prop_map(|d| (d, "dense")),
        2 => (vec(any::<u8>(), len), 0usize..=len).prop_map(|(mut d, z)| { for b in d.iter_mut().take(z) { *b = 0; } (d, "leading_zeros") }),
        2 => (vec(any::<u8>(), len), any::<u16>(), any::<u16>()).prop_map(move |(mut d, a, b)| {
            let s = crate::gens::pick(a, len);
            let e = (s + 1 + crate::gens::pick(b, len)).min(len);
            for x in d[s..e].iter_mut() { *x = 0; }
            (d, "interior_zero_run")
        }),
        1 => Just((vec![0u8; len], "all_zero")),
        1 => Just((vec![0xFFu8; len], "all_ff")),
        1 => vec(prop_oneof![Just(0u8), Just(1u8), any::<u8>()], len).prop_map(|d| (d, "sparse")),
        2 => (vec(any::<u8>(), len), 1u8..=255, any::<u16>()).prop_map(move |(mut d, c, off)| {
            // c * g(x) placed at a generated offset after zeros: the running remainder becomes zero mid-division
            if len >= g.len() {
                let o = crate::gens::pick(off, len - g.len() + 1);
                for x in d[..o].iter_mut() { *x = 0; }
                for (k, &gk) in g.iter().enumerate() { d[o + k] = gf::mul(gk, c); }
            }
            (d, "multiple_of_g_prefix")
        }),
        // a prefix followed by (the beginning of) its own remainder: the running remainder cancels against the incoming data
        2 => (vec(any::<u8>(), len), any::<u16>(), 0usize..3, prop_oneof![Just(1usize), Just(2), Just(3), Just(4), Just(8), Just(255)]).prop_map(move |(mut d, pr, align, take)| {
            let unit = [4usize, 2, 1][align];
            let p = (1 + crate::gens::pick(pr, len.saturating_sub(1).max(1))) / unit * unit;
            if p >= 1 && p < len {
                let rem = gf::rs_remainder(&d[..p], ec);
                let k = take.min(rem.len()).min(len - p);
                d[p..p + k].copy_from_slice(&rem[..k]);
            }
            (d, "prefix_plus_own_remainder")
        }),
        1 => (1u8..=255, any::<u16>()).prop_map(move |(c, off)| {
            let mut d = vec![0u8; len];
            if len >= g2.len() {
                let o = crate::gens::pick(off, len - g2.len() + 1);
                for (k, &gk) in g2.iter().enumerate() { d[o + k] = gf::mul(gk, c); }
            }
            (d, "exact_multiple_of_g")
        }),
    ]
    .prop_map(move |(data, fam)| Case { version, level, data, fam })
    .boxed()
}

/// Symbol level: the EC codewords EMITTED for every block of a built symbol are the remainder of that block's data
/// codewords (the division routine can be right and the block driver around it - which block is divided, which
/// remainder is stored where - wrong).
pub fn check_symbol(bc: &crate::fq::BuildCase, fam: &str, obs: &mut Obs) -> Result<(), Fail> {
    let built = match super::common::do_build(bc)? {
        Ok(b) => b,
        Err(_) => {
            obs.label("no_symbol");
            return Ok(());
        }
    };
    let vals = built.values();
    let d = match refmodel::codec::decode_plain(&vals, built.size()) {
        Ok(d) => d,
        Err(_) => {
            // unreadable symbols are C01/C02's business; here only emitted EC codewords are judged
            obs.label("unreadable_symbol");
            return Ok(());
        }
    };
    for (k, (data, ec)) in d.blocks.iter().enumerate() {
        let want = gf::rs_remainder(data, ec.len());
        if *ec != want {
            return fail(
                "emitted_ec",
                format!(
                    "v{} {}: block {} of {} ({} data codewords): emitted EC codewords {} are not data(x)*x^{} mod g(x) = {} ({:?})",
                    d.read.version, d.read.level.name(), k, d.blocks.len(), data.len(), hex(ec), ec.len(), hex(&want), bc
                ),
            );
        }
    }
    obs.label(&format!("symbol_family:{}", fam));
    obs.count("symbol_blocks_checked", d.blocks.len() as u64);
    if d.blocks.len() >= 2 {
        obs.nontrivial(bc.hash());
    }
    obs.sample("symbol_level", || bc.to_sample());
    Ok(())
}

pub fn run(e: &'static Engine) {
    e.set_rule(
        "Exhaustive: generator accessor for all 160 (version, level): degree == reference Table 9 EC-per-block and every \
         coefficient alpha^e equals the coefficient of prod_{i<ec}(x - alpha^i) computed by polynomial multiplication. Basis: for \
         (block length, degree) pairs in use (quick: shortest and longest block of each of the 13 degrees; thorough: all pairs) \
         every position x every value 1..=255 as the single non-zero byte. Generated: for every pair in use dense blocks, leading / \
         interior zero runs, all-zero, all-0xFF, sparse, blocks containing c*g(x) so that the running remainder vanishes \
         mid-division. Oracle: division(data, gen)[255-ec..255] == data(x)*x^ec mod g(x) by schoolbook division over GF(2^8)/0x11D \
         with shift-and-reduce multiplication. Non-trivial: basis vectors, or blocks with zero bytes among non-zero ones; distinct by \
         (content, degree).",
    );
    e.extend_rule("part division_histories: first call, n calls that change the generator every time (dividends all-zero / last byte / repeated / generated), last call, n around 2^k; symbol-level part also over block look-alikes (padding look-alikes, near-copies, generator multiples).");
    e.assume("hook: verif_hooks::division / generator are plain re-exports of polynomials::division / hardcode::get_polynomial");
    crate::engine::run_regress(e, &|c, o| replay(e, c, o));
    let prs = pairs();
    let n_pairs = prs.len();
    // (a) generator mapping, exhaustive
    e.par(vec![Box::new(move |jc: &mut JobCtx| {
        for v in 1..=40usize {
            for &l in &LEVELS {
                jc.run_case(&(v, l), |(v, l)| json!({"version": v, "level": l.name()}), |(v, l), o| {
                    o.label("part:generator_mapping");
                    check_generator(*v, *l)?;
                    o.nontrivial(crate::engine::hash_bytes(&[*v as u8, *l as u8, 0xAA]));
                    Ok(())
                });
            }
        }
    })]);
    // (b) basis enumeration
    let mut basis_pairs: Vec<((usize, usize), (usize, Level))> = Vec::new();
    if e.tier == Tier::Thorough {
        basis_pairs = prs.iter().map(|(k, v)| (*k, *v)).collect();
    } else {
        let mut by_deg: BTreeMap<usize, Vec<((usize, usize), (usize, Level))>> = BTreeMap::new();
        for (k, v) in prs.iter() {
            by_deg.entry(k.1).or_default().push((*k, *v));
        }
        for (_, mut v) in by_deg {
            v.sort();
            basis_pairs.push(v[0]);
            if v.len() > 1 {
                basis_pairs.push(*v.last().unwrap());
            }
        }
    }
    let degrees: std::collections::BTreeSet<usize> = prs.keys().map(|k| k.1).collect();
    e.put("degrees_in_use", json!(degrees));
    e.put("block_shapes_in_use", json!(n_pairs));
    e.put("basis_block_shapes", json!(basis_pairs.len()));
    let mut jobs: Vec<Job> = Vec::new();
    for ((len, _ec), (v, l)) in basis_pairs.clone() {
        jobs.push(Box::new(move |jc: &mut JobCtx| {
            for p in 0..len {
                jc.engine.tick();
                for val in 1..=255u8 {
                    let mut data = vec![0u8; len];
                    data[p] = val;
                    let c = Case { version: v, level: l, data, fam: "basis" };
                    jc.run_case(&c, to_json, |c, o| {
                        let r = check(c, o);
                        if p == len / 2 && val == 0x53 {
                            o.sample("basis", || to_json(c));
                        }
                        r
                    });
                }
            }
        }));
    }
    e.par(jobs);
    // (c) generated blocks for every pair in use (thorough: additionally for every (version, level) arm)
    let per: u32 = e.tier.pick(800, 6000);
    let mut jobs: Vec<Job> = Vec::new();
    for ((len, _ec), (v, l)) in prs.iter().map(|(k, v)| (*k, *v)) {
        jobs.push(Box::new(move |jc: &mut JobCtx| {
            let strat = block_strategy(v, l, len);
            jc.run_prop(7, &strat, per, to_json, |c, o| {
                let r = check(c, o);
                o.sample(c.fam, || to_json(c));
                r
            });
        }));
    }
    if e.tier == Tier::Thorough {
        for v in 1..=40usize {
            for &l in &LEVELS {
                jobs.push(Box::new(move |jc: &mut JobCtx| {
                    let lay = layout(v, l);
                    for (k, len) in [lay.short_data, lay.long_data].into_iter().enumerate() {
                        if k == 1 && lay.long_blocks == 0 {
                            continue;
                        }
                        let strat = block_strategy(v, l, len);
                        jc.run_prop(100 + k as u64, &strat, 300, to_json, check);
                    }
                }));
            }
        }
    }
    e.par(jobs);
    // (e) histories of divisions on one thread with the number of calls in between around 2^k
    let total: u32 = e.tier.pick(640, 9600);
    let shards = e.tier.pick(32u32, 96);
    let deep = e.tier == Tier::Thorough;
    let mut jobs: Vec<Job> = Vec::new();
    for _ in 0..shards {
        jobs.push(Box::new(move |jc: &mut JobCtx| {
            let strat = div_history_strategy(deep);
            jc.run_prop(55 << 20, &strat, total / shards, dh_json, |h, o| {
                o.label("part:division_histories");
                check_div_history(h, o)
            });
        }));
    }
    e.par(jobs);
    // (d) symbol level: emitted EC codewords of every block of built symbols (random cells, tie-rich small versions,
    // short payloads in forced larger versions = runs of identical padding blocks, steered and periodic content)
    super::common::standard_parts(e, 16000, 192000, check_symbol);
    e.set_exhaustive(
        true,
        "generator mapping for all 160 (version, level); single-non-zero-byte basis (every position x every value 1..=255) of the listed block shapes",
    );
}
