//! C07 — EC codewords are the true GF(256) polynomial remainder for any block content.
//! Drives the guarded re-exports `verif_hooks::division` and `verif_hooks::generator`.

use crate::engine::{catch, fail, hex, panic_sig, unhex, Engine, Fail, Job, JobCtx, Obs, Tier};
use crate::ensure;
use crate::fq::{f_level, f_version};
use fast_qr::verif_hooks;
use proptest::collection::vec;
use proptest::prelude::*;
use refmodel::gf;
use refmodel::tables::*;
use serde_json::{json, Value};
use std::collections::BTreeMap;

#[derive(Clone, Debug)]
pub struct Case {
    pub version: usize,
    pub level: Level,
    pub data: Vec<u8>,
    pub fam: &'static str,
}

pub fn to_json(c: &Case) -> Value {
    json!({"version": c.version, "level": c.level.name(), "data_hex": hex(&c.data), "data_len": c.data.len(), "family": c.fam})
}

fn level_from(s: &str) -> Level {
    match s {
        "L" => Level::L,
        "M" => Level::M,
        "Q" => Level::Q,
        _ => Level::H,
    }
}

/// EC codewords fast_qr computes for one block with the generator it selects for (version, level)
fn fq_ec(version: usize, level: Level, data: &[u8]) -> Result<Vec<u8>, String> {
    catch(|| {
        let g = verif_hooks::generator(f_version(version), f_level(level));
        let out = verif_hooks::division(data, g);
        let ec = g.len() - 1;
        out[255 - ec..255].to_vec()
    })
}

pub fn check_generator(version: usize, level: Level) -> Result<(), Fail> {
    let g = catch(|| verif_hooks::generator(f_version(version), f_level(level)).to_vec())
        .map_err(|p| Fail { sig: panic_sig(&p), msg: format!("generator accessor panicked for v{} {}: {}", version, level.name(), p) })?;
    let ec = ec_per_block(version, level);
    ensure!(
        g.len() == ec + 1,
        "generator_degree",
        "v{} {}: generator has degree {} but ISO Table 9 prescribes {} EC codewords per block",
        version,
        level.name(),
        g.len().wrapping_sub(1),
        ec
    );
    let want = gf::generator(ec);
    for k in 0..=ec {
        let coef = gf::alpha_pow(g[k] as usize);
        ensure!(
            coef == want[k] && (g[k] as usize) < 255,
            "generator_coefficient",
            "v{} {} (degree {}): coefficient {} is alpha^{} = {:#04x}, but prod (x - alpha^i) has {:#04x}",
            version,
            level.name(),
            ec,
            k,
            g[k],
            coef,
            want[k]
        );
    }
    Ok(())
}

pub fn check(c: &Case, obs: &mut Obs) -> Result<(), Fail> {
    let ec = ec_per_block(c.version, c.level);
    let got = fq_ec(c.version, c.level, &c.data).map_err(|p| Fail {
        sig: panic_sig(&p),
        msg: format!("division panicked for a {}-byte block with the v{} {} generator: {}", c.data.len(), c.version, c.level.name(), p),
    })?;
    let want = gf::rs_remainder(&c.data, ec);
    if got != want {
        let first = got.iter().zip(want.iter()).position(|(a, b)| a != b);
        return fail(
            "remainder",
            format!(
                "block of {} bytes ({}), generator of v{} {} (degree {}): EC codewords {:02x?} differ from data(x)*x^{} mod g(x) = {:02x?} (first difference at {:?})",
                c.data.len(), c.fam, c.version, c.level.name(), ec, got, ec, want, first
            ),
        );
    }
    obs.label(&format!("family:{}", c.fam));
    obs.label(&format!("degree:{}", ec));
    let nz = c.data.iter().filter(|&&b| b != 0).count();
    let has_zero_among_nonzero = nz > 0 && nz < c.data.len();
    if has_zero_among_nonzero || c.fam == "basis" {
        let mut key = c.data.clone();
        key.push(ec as u8);
        obs.nontrivial(crate::engine::hash_bytes(&key));
    }
    Ok(())
}

pub fn replay(_e: &Engine, case: &Value, obs: &mut Obs) -> Result<(), Fail> {
    if case.get("input_hex").is_some() {
        let bc = crate::fq::BuildCase::from_json(case).ok_or_else(|| Fail { sig: "bad_replay".into(), msg: "cannot parse case".into() })?;
        return check_symbol(&bc, "replay", obs);
    }
    let bad = || Fail { sig: "bad_replay".into(), msg: "cannot parse case".into() };
    let version = case["version"].as_u64().ok_or_else(bad)? as usize;
    let level = level_from(case["level"].as_str().ok_or_else(bad)?);
    if case.get("data_hex").is_none() {
        return check_generator(version, level);
    }
    let data = unhex(case["data_hex"].as_str().ok_or_else(bad)?).ok_or_else(bad)?;
    check_generator(version, level)?;
    check(&Case { version, level, data, fam: "replay" }, obs)
}

/// distinct (data_len, ec) pairs in use -> a representative (version, level)
fn pairs() -> BTreeMap<(usize, usize), (usize, Level)> {
    let mut m = BTreeMap::new();
    for v in 1..=40 {
        for &l in &LEVELS {
            let lay = layout(v, l);
            m.entry((lay.short_data, lay.ec)).or_insert((v, l));
            if lay.long_blocks > 0 {
                m.entry((lay.long_data, lay.ec)).or_insert((v, l));
            }
        }
    }
    m
}

fn block_strategy(version: usize, level: Level, len: usize) -> BoxedStrategy<Case> {
    let ec = ec_per_block(version, level);
    let g = gf::generator(ec);
    let g2 = g.clone();
    prop_oneof![
        4 => vec(any::<u8>(), len).prop_map(|d| (d, "dense")),
        2 => (vec(any::<u8>(), len), 0usize..=len).prop_map(|(mut d, z)| { for b in d.iter_mut().take(z) { *b = 0; } (d, "leading_zeros") }),
        2 => (vec(any::<u8>(), len), any::<u16>(), any::<u16>()).prop_map(move |(mut d, a, b)| {
            let s = crate::gens::pick(a, len);
            let e = (s + 1 + crate::gens::pick(b, len)).min(len);
            for x in d[s..e].iter_mut() { *x = 0; }
            (d, "interior_zero_run")
        }),
        1 => Just((vec![0u8; len], "all_zero")),
        1 => Just((vec![0xFFu8; len], "all_ff")),
        1 => vec(prop_oneof![Just(0u8), Just(1u8), any::<u8>()], len).prop_map(|d| (d, "sparse")),
        2 => (vec(any::<u8>(), len), 1u8..=255, any::<u16>()).prop_map(move |(mut d, c, off)| {
            // c * g(x) placed at a generated offset after zeros: the running remainder becomes zero mid-division
            if len >= g.len() {
                let o = crate::gens::pick(off, len - g.len() + 1);
                for x in d[..o].iter_mut() { *x = 0; }
                for (k, &gk) in g.iter().enumerate() { d[o + k] = gf::mul(gk, c); }
            }
            (d, "multiple_of_g_prefix")
        }),
        1 => (1u8..=255, any::<u16>()).prop_map(move |(c, off)| {
            let mut d = vec![0u8; len];
            if len >= g2.len() {
                let o = crate::gens::pick(off, len - g2.len() + 1);
                for (k, &gk) in g2.iter().enumerate() { d[o + k] = gf::mul(gk, c); }
            }
            (d, "exact_multiple_of_g")
        }),
    ]
    .prop_map(move |(data, fam)| Case { version, level, data, fam })
    .boxed()
}

/// Symbol level: the EC codewords EMITTED for every block of a built symbol are the remainder of that block's data
/// codewords (the division routine can be right and the block driver around it - which block is divided, which
/// remainder is stored where - wrong).
pub fn check_symbol(bc: &crate::fq::BuildCase, fam: &str, obs: &mut Obs) -> Result<(), Fail> {
    let built = match super::common::do_build(bc)? {
        Ok(b) => b,
        Err(_) => {
            obs.label("no_symbol");
            return Ok(());
        }
    };
    let vals = built.values();
    let d = match refmodel::codec::decode_plain(&vals, built.size()) {
        Ok(d) => d,
        Err(_) => {
            // unreadable symbols are C01/C02's business; here only emitted EC codewords are judged
            obs.label("unreadable_symbol");
            return Ok(());
        }
    };
    for (k, (data, ec)) in d.blocks.iter().enumerate() {
        let want = gf::rs_remainder(data, ec.len());
        if *ec != want {
            return fail(
                "emitted_ec",
                format!(
                    "v{} {}: block {} of {} ({} data codewords): emitted EC codewords {} are not data(x)*x^{} mod g(x) = {} ({:?})",
                    d.read.version, d.read.level.name(), k, d.blocks.len(), data.len(), hex(ec), ec.len(), hex(&want), bc
                ),
            );
        }
    }
    obs.label(&format!("symbol_family:{}", fam));
    obs.count("symbol_blocks_checked", d.blocks.len() as u64);
    if d.blocks.len() >= 2 {
        obs.nontrivial(bc.hash());
    }
    obs.sample("symbol_level", || bc.to_sample());
    Ok(())
}

pub fn run(e: &'static Engine) {
    e.set_rule(
        "Exhaustive: generator accessor for all 160 (version, level): degree == reference Table 9 EC-per-block and every \
         coefficient alpha^e equals the coefficient of prod_{i<ec}(x - alpha^i) computed by polynomial multiplication. Basis: for \
         (block length, degree) pairs in use (quick: shortest and longest block of each of the 13 degrees; thorough: all pairs) \
         every position x every value 1..=255 as the single non-zero byte. Generated: for every pair in use dense blocks, leading / \
         interior zero runs, all-zero, all-0xFF, sparse, blocks containing c*g(x) so that the running remainder vanishes \
         mid-division. Oracle: division(data, gen)[255-ec..255] == data(x)*x^ec mod g(x) by schoolbook division over GF(2^8)/0x11D \
         with shift-and-reduce multiplication. Non-trivial: basis vectors, or blocks with zero bytes among non-zero ones; distinct by \
         (content, degree).",
    );
    e.assume("hook: verif_hooks::division / generator are plain re-exports of polynomials::division / hardcode::get_polynomial");
    crate::engine::run_regress(e, &|c, o| replay(e, c, o));
    let prs = pairs();
    let n_pairs = prs.len();
    // (a) generator mapping, exhaustive
    e.par(vec![Box::new(move |jc: &mut JobCtx| {
        for v in 1..=40usize {
            for &l in &LEVELS {
                jc.run_case(&(v, l), |(v, l)| json!({"version": v, "level": l.name()}), |(v, l), o| {
                    o.label("part:generator_mapping");
                    check_generator(*v, *l)?;
                    o.nontrivial(crate::engine::hash_bytes(&[*v as u8, *l as u8, 0xAA]));
                    Ok(())
                });
            }
        }
    })]);
    // (b) basis enumeration
    let mut basis_pairs: Vec<((usize, usize), (usize, Level))> = Vec::new();
    if e.tier == Tier::Thorough {
        basis_pairs = prs.iter().map(|(k, v)| (*k, *v)).collect();
    } else {
        let mut by_deg: BTreeMap<usize, Vec<((usize, usize), (usize, Level))>> = BTreeMap::new();
        for (k, v) in prs.iter() {
            by_deg.entry(k.1).or_default().push((*k, *v));
        }
        for (_, mut v) in by_deg {
            v.sort();
            basis_pairs.push(v[0]);
            if v.len() > 1 {
                basis_pairs.push(*v.last().unwrap());
            }
        }
    }
    let degrees: std::collections::BTreeSet<usize> = prs.keys().map(|k| k.1).collect();
    e.put("degrees_in_use", json!(degrees));
    e.put("block_shapes_in_use", json!(n_pairs));
    e.put("basis_block_shapes", json!(basis_pairs.len()));
    let mut jobs: Vec<Job> = Vec::new();
    for ((len, _ec), (v, l)) in basis_pairs.clone() {
        jobs.push(Box::new(move |jc: &mut JobCtx| {
            for p in 0..len {
                jc.engine.tick();
                for val in 1..=255u8 {
                    let mut data = vec![0u8; len];
                    data[p] = val;
                    let c = Case { version: v, level: l, data, fam: "basis" };
                    jc.run_case(&c, to_json, |c, o| {
                        let r = check(c, o);
                        if p == len / 2 && val == 0x53 {
                            o.sample("basis", || to_json(c));
                        }
                        r
                    });
                }
            }
        }));
    }
    e.par(jobs);
    // (c) generated blocks for every pair in use (thorough: additionally for every (version, level) arm)
    let per: u32 = e.tier.pick(800, 6000);
    let mut jobs: Vec<Job> = Vec::new();
    for ((len, _ec), (v, l)) in prs.iter().map(|(k, v)| (*k, *v)) {
        jobs.push(Box::new(move |jc: &mut JobCtx| {
            let strat = block_strategy(v, l, len);
            jc.run_prop(7, &strat, per, to_json, |c, o| {
                let r = check(c, o);
                o.sample(c.fam, || to_json(c));
                r
            });
        }));
    }
    if e.tier == Tier::Thorough {
        for v in 1..=40usize {
            for &l in &LEVELS {
                jobs.push(Box::new(move |jc: &mut JobCtx| {
                    let lay = layout(v, l);
                    for (k, len) in [lay.short_data, lay.long_data].into_iter().enumerate() {
                        if k == 1 && lay.long_blocks == 0 {
                            continue;
                        }
                        let strat = block_strategy(v, l, len);
                        jc.run_prop(100 + k as u64, &strat, 300, to_json, check);
                    }
                }));
            }
        }
    }
    e.par(jobs);
    // (d) symbol level: emitted EC codewords of every block of built symbols (random cells, tie-rich small versions,
    // short payloads in forced larger versions = runs of identical padding blocks, steered and periodic content)
    super::common::standard_parts(e, 16000, 192000, check_symbol);
    e.set_exhaustive(
        true,
        "generator mapping for all 160 (version, level); single-non-zero-byte basis (every position x every value 1..=255) of the listed block shapes",
    );
}
