//! One module per property. Each exposes `run(&Engine)` and `replay(&Engine, &Value, &mut Obs)`.

use crate::engine::{default_timeout, Engine, Fail, Obs};
use serde_json::Value;

pub mod common;
pub mod c01;
pub mod c02;
pub mod c03;
pub mod c04;
pub mod c05;
pub mod c06;
#[cfg(fast_qr_verif)]
pub mod c07;
pub mod c08;
pub mod c09;
pub mod c10;
#[cfg(fast_qr_verif)]
pub mod c11;
pub mod c12;
pub mod c13;
pub mod c14;
pub mod c15;
pub mod c16;
#[cfg(fast_qr_verif)]
pub mod c17;
pub mod c18;
pub mod c19;

pub struct Prop {
    pub id: &'static str,
    pub level: &'static str,
    pub needs_model: bool,
    pub watchdog_s: u64,
    pub on_timeout: fn(&Engine, &[Value]),
    pub run: fn(&'static Engine),
    pub replay: fn(&Engine, &Value, &mut Obs) -> Result<(), Fail>,
}

pub fn lookup(id: &str) -> Option<Prop> {
    let p = |id, run, replay| Prop { id, level: "exploration", needs_model: true, watchdog_s: 300, on_timeout: default_timeout, run, replay };
    Some(match id {
        "C01" => p("C01", c01::run, c01::replay),
        "C02" => p("C02", c02::run, c02::replay),
        "C03" => p("C03", c03::run, c03::replay),
        "C04" => p("C04", c04::run, c04::replay),
        "C05" => p("C05", c05::run, c05::replay),
        "C06" => p("C06", c06::run, c06::replay),
        #[cfg(fast_qr_verif)]
        "C07" => p("C07", c07::run, c07::replay),
        "C08" => p("C08", c08::run, c08::replay),
        "C09" => p("C09", c09::run, c09::replay),
        "C10" => Prop { needs_model: false, watchdog_s: 120, on_timeout: c10::on_timeout, ..p("C10", c10::run, c10::replay) },
        #[cfg(fast_qr_verif)]
        "C11" => p("C11", c11::run, c11::replay),
        "C12" => Prop { needs_model: false, ..p("C12", c12::run, c12::replay) },
        "C13" => Prop { needs_model: false, ..p("C13", c13::run, c13::replay) },
        "C14" => Prop { needs_model: false, ..p("C14", c14::run, c14::replay) },
        "C15" => p("C15", c15::run, c15::replay),
        #[cfg(fast_qr_verif)]
        "C17" => Prop { needs_model: false, ..p("C17", c17::run, c17::replay) },
        "C18" => Prop { needs_model: false, ..p("C18", c18::run, c18::replay) },
        "C19" => Prop { needs_model: false, level: "fault_enumeration", ..p("C19", c19::run, c19::replay) },
        "C16" => Prop { needs_model: false, ..p("C16", c16::run, c16::replay) },
        _ => return None,
    })
}
