//! One module per property. Each exposes `run(&Engine)` and `replay(&Engine, &Value, &mut Obs)`.

use crate::engine::{default_timeout, Engine, Fail, Obs};
use serde_json::Value;

pub mod common;
pub mod c01;

pub struct Prop {
    pub id: &'static str,
    pub level: &'static str,
    pub needs_model: bool,
    pub watchdog_s: u64,
    pub on_timeout: fn(&Engine),
    pub run: fn(&'static Engine),
    pub replay: fn(&Engine, &Value, &mut Obs) -> Result<(), Fail>,
}

pub fn lookup(id: &str) -> Option<Prop> {
    let p = |id, run, replay| Prop { id, level: "exploration", needs_model: true, watchdog_s: 300, on_timeout: default_timeout, run, replay };
    Some(match id {
        "C01" => p("C01", c01::run, c01::replay),
        _ => return None,
    })
}
