//! C03 — function patterns and symbol geometry are exact for all 40 versions.

use super::common::{do_build, label_case};
use crate::engine::{fail, Engine, Fail, Job, JobCtx, Obs};
use crate::ensure;
use crate::fq::BuildCase;
use crate::gens::{case_in_cell, Cell, Force};
use proptest::prelude::*;
use refmodel::geom::{geometry, Region};
use refmodel::tables::*;
use serde_json::{json, Value};

thread_local! {
    /// a version-40 symbol (every kind of function pattern far outside any smaller square) used as clone_from target
    static LARGE: Box<fast_qr::QRCode> = crate::fq::large_symbol();
}

pub fn check(bc: &BuildCase, fam: &str, obs: &mut Obs) -> Result<(), Fail> {
    let built = match do_build(bc)? {
        Ok(b) => b,
        Err(e) => {
            obs.label(&format!("no_symbol:{:?}", e));
            return Ok(());
        }
    };
    label_case(obs, bc, fam, Some(&built));
    let n = built.size();
    let v = match bc.opts.version {
        Some(v) => v,
        None => min_version(bc.effective_level(), bc.effective_mode(), bc.input.len()).unwrap_or(0),
    };
    // the side is 17+4v for some v in 1..=40; when the version is forced it is that one
    let vs = version_from_size(n);
    ensure!(vs.is_some(), "size", "matrix side {} is not 17+4v for any v in 1..=40 ({:?})", n, bc);
    let vs = vs.unwrap();
    if bc.opts.version.is_some() {
        ensure!(vs == v, "size", "forced version {} but matrix side {} (= version {}) ({:?})", v, n, vs, bc);
    }
    // ... and it is the version the QR code itself reports
    if let Some(rv) = built.qr.version.map(crate::fq::version_no) {
        ensure!(n == 17 + 4 * rv, "size", "the QR code reports version {} but its matrix side is {} (17+4v = {}) ({:?})", rv, n, 17 + 4 * rv, bc);
    }
    let g = geometry(vs);
    if let Some(d) = built.index_view_differs() {
        return fail("index_view", format!("the row view of the symbol differs from its data: {} ({:?})", d, bc));
    }
    let vals = built.values();
    for r in 0..n {
        for c in 0..n {
            let i = r * n + c;
            if let Some(want) = g.fixed[i] {
                if vals[i] != want {
                    return fail(
                        &format!("function_pattern:{}", g.region[i].name()),
                        format!(
                            "v{}: module (row {}, col {}) of the {} pattern is {} but the standard requires {} ({:?})",
                            vs,
                            r,
                            c,
                            g.region[i].name(),
                            if vals[i] { "dark" } else { "light" },
                            if want { "dark" } else { "light" },
                            bc
                        ),
                    );
                }
            }
        }
    }
    // nothing outside the size x size square of the backing array is dark or typed
    let light_data = fast_qr::Module::data(fast_qr::Module::LIGHT).0;
    for (i, m) in built.qr.data[n * n..].iter().enumerate() {
        if m.0 != light_data {
            return fail(
                "outside_symbol",
                format!("backing array element {} (beyond size*size = {}) is {:#04x}, must stay light/data ({:?})", n * n + i, n * n, m.0, bc),
            );
        }
    }
    if let Some(d) = crate::fq::copy_differs(&built.qr) {
        return fail("copy", format!("a copy of the symbol differs from it: {} ({:?})", d, bc));
    }
    // copies of the symbol are the same symbol: `clone()`, and `clone_from` / `clone_into` onto a value that held a
    // LARGER symbol before (one case in four), must give exactly the same backing array - in particular nothing of the
    // larger symbol may survive outside the square
    if bc.hash() % 4 == 0 {
        let copies = crate::engine::catch(|| {
            let a = (*built.qr).clone();
            let mut slot = LARGE.with(|l| l.clone());
            slot.clone_from(&built.qr);
            (a, slot)
        })
        .map_err(|p| Fail { sig: crate::engine::panic_sig(&p), msg: format!("cloning the symbol panicked: {}", p) })?;
        for (what, q) in [("clone()", &copies.0), ("clone_from() onto a version-40 symbol", &copies.1)] {
            if q.size != n || q.data.iter().zip(built.qr.data.iter()).any(|(x, y)| x.0 != y.0) {
                let at = q.data.iter().zip(built.qr.data.iter()).position(|(x, y)| x.0 != y.0);
                return fail(
                    "copy_differs",
                    format!("{} of a v{} symbol differs from the symbol at backing-array index {:?} (size*size = {}; copy size {}) ({:?})", what, vs, at, n * n, q.size, bc),
                );
            }
        }
        obs.label("copies_checked");
    }
    obs.count("alignment_modules_checked", g.count(Region::Alignment) as u64);
    obs.nontrivial(bc.hash());
    obs.sample(&format!("band:{}", crate::gens::version_band(vs)), || bc.to_sample());
    Ok(())
}

pub fn replay(_e: &Engine, case: &Value, obs: &mut Obs) -> Result<(), Fail> {
    let b = BuildCase::from_json(case).ok_or_else(|| Fail { sig: "bad_replay".into(), msg: "cannot parse case".into() })?;
    check(&b, "replay", obs)
}

pub fn run(e: &'static Engine) {
    e.set_rule(
        "Enumerated: 40 versions x 4 levels x 8 forced masks (+ automatic mask) with generated mode class, forced/automatic \
         version, length (incl. empty and at capacity) and payload. Oracle: side = 17+4v; every module of the reference finder / \
         separator / timing / alignment (Annex E centres by the spacing rule) / dark-module map has exactly the reference value \
         after placement and masking; every element of QRCode.data beyond size*size equals Module::data(LIGHT). Non-trivial: every \
         case (each is a distinct cell/payload); distinct by case hash.",
    );
    e.extend_rule("side == 17+4 x the REPORTED version; every Clone copy (clone, clone_from onto a V40 symbol and onto a small symbol of other level/mask/mode) equals the original byte for byte; row view == data; extreme textures, block look-alikes.");
    e.assume("refmodel function-pattern map is right: drawn from the ISO figures, self-tested against qrcode-crate symbols of all 40 versions");
    crate::engine::run_regress(e, &|c, o| replay(e, c, o));
    let per: u32 = e.tier.pick(1, 8);
    let mut jobs: Vec<Job> = Vec::new();
    for v in 1..=40usize {
        jobs.push(Box::new(move |jc: &mut JobCtx| {
            let mut salt = 0;
            for &level in LEVELS.iter() {
                for mk in 0..9u8 {
                    let mask = if mk == 8 { None } else { Some(mk) };
                    salt += 1;
                    let strat = (0usize..3, any::<bool>(), any::<bool>()).prop_flat_map(move |(mi, fm, fv)| {
                        let cell = Cell { version: v, level, mode: Mode::from_index(mi) };
                        case_in_cell(cell, Force { mode: fm, level: true, version: fv }, mask)
                    });
                    jc.run_prop(salt, &strat, per, |(c, _)| c.to_json(), |(c, fam), o| check(c, fam, o));
                }
            }
        }));
    }
    e.par(jobs);
    super::common::standard_parts(e, 32000, 256000, check);
    e.put("cells_total", json!(40 * 4 * 9));
    e.set_exhaustive(false, "all 40 versions x 4 levels x 9 mask settings are enumerated and every coordinate of every symbol is compared; payloads are sampled");
}
