//! C11 — automatic mask minimises the documented penalty over all eight masks.
//! Uses the guarded recorder hook in the selection loop.

use super::common::label_case;
use crate::engine::{catch, fail, Engine, Fail, Job, JobCtx, Obs};
use crate::ensure;
use crate::fq::{mask_no, BuildCase};
use crate::gens::{case_in_cell, Cell, Force};
use fast_qr::verif_hooks;
use proptest::prelude::*;
use refmodel::geom::{geometry, mask_cond};
use refmodel::penalty::{penalty, Penalty};
use refmodel::tables::*;
use serde_json::{json, Value};

/// Builds executed on the same thread immediately before the build under test (a history): hidden state left
/// behind by an earlier build of the same version (a reused working matrix, a cached template) must not change
/// which mask is selected. `pre`: 0 none, 1 sibling, 2 sibling twice, 3 sibling with forced mask 7 then sibling,
/// 4 a larger version then sibling. A sibling has the same version, level and mode and a different payload.
fn run_prelude(bc: &BuildCase, pre: u8) {
    if pre == 0 {
        return;
    }
    let mode = bc.effective_mode();
    let level = bc.effective_level();
    let Some(version) = bc.opts.version.or_else(|| min_version(level, mode, bc.input.len())) else { return };
    let payload: Vec<u8> = bc
        .input
        .iter()
        .map(|&b| match mode {
            Mode::Numeric => b'0' + (b.wrapping_sub(b'0') + 3) % 10,
            Mode::Alphanumeric => ALNUM_SET[(alnum_value(b).unwrap_or(0) as usize + 7) % 45],
            Mode::Byte => b ^ 0x5A,
        })
        .collect();
    let sib = |mask: Option<u8>, v: usize| BuildCase::new(payload.clone(), crate::fq::Opts { mode: Some(mode), level: Some(level), version: Some(v), mask });
    let run = |c: BuildCase| {
        let _ = catch(|| c.builder().build().map(|q| q.size));
    };
    match pre {
        1 => run(sib(None, version)),
        2 => {
            run(sib(None, version));
            run(sib(None, version));
        }
        3 => {
            run(sib(Some(7), version));
            run(sib(None, version));
        }
        _ => {
            run(sib(None, (version + 3).min(40)));
            run(sib(None, version));
        }
    }
}

pub fn case_json(bc: &BuildCase, pre: u8) -> Value {
    let mut j = bc.to_json();
    j["prelude"] = json!(pre);
    j
}

pub fn check(bc: &BuildCase, fam: &str, obs: &mut Obs) -> Result<(), Fail> {
    check_pre(bc, (bc.hash() % 5) as u8, fam, obs)
}

pub fn check_pre(bc: &BuildCase, pre: u8, fam: &str, obs: &mut Obs) -> Result<(), Fail> {
    run_prelude(bc, pre);
    obs.label(&format!("prelude:{}", pre));
    let b = bc.builder();
    let r = catch(|| {
        verif_hooks::arm();
        let r = b.build().map(Box::new);
        let rec = verif_hooks::take();
        (r, rec)
    });
    let (res, rec) = match r {
        Ok(x) => x,
        Err(_panic) => {
            // no symbol returned: totality is C10's question, not the mask selection's
            let _ = catch(|| verif_hooks::take());
            obs.label("no_symbol:panic");
            return Ok(());
        }
    };
    let qr = match res {
        Ok(q) => q,
        Err(_) => {
            obs.label("no_symbol");
            return Ok(());
        }
    };
    let built = crate::fq::Built { qr };
    label_case(obs, bc, fam, Some(&built));
    let n = built.size();
    let v = version_from_size(n).ok_or_else(|| Fail { sig: "size".into(), msg: format!("bad size {}", n) })?;
    let emitted = built.qr.mask.map(mask_no);
    if let Some(f) = bc.opts.mask {
        // (4) a forced mask always overrides the selection
        ensure!(emitted == Some(f), "forced_mask_overridden", "mask {} forced but {:?} emitted ({:?})", f, emitted, bc);
        // the symbol must physically carry it too
        let g = geometry(v);
        let vals = built.values();
        let mut w = 0u16;
        for i in 0..15 {
            let (r, c) = g.format_pos[0][i];
            if vals[r * n + c] {
                w |= 1 << i;
            }
        }
        let named = refmodel::geom::format_decode_nearest(w).map(|x| x.1);
        ensure!(named == Some(f), "forced_mask_overridden", "mask {} forced but the format information names {:?} ({:?})", f, named, bc);
        obs.label("forced_mask");
        obs.nontrivial(bc.hash());
        return Ok(());
    }
    let emitted = emitted.ok_or_else(|| Fail { sig: "mask_none".into(), msg: "QRCode.mask is None".into() })?;
    // (1) exactly the eight ISO masks, each once
    let mut seen = [0usize; 8];
    for c in &rec {
        seen[mask_no(c.mask) as usize] += 1;
    }
    ensure!(
        rec.len() == 8 && seen.iter().all(|&k| k == 1),
        "candidates",
        "selection evaluated {} candidates with mask multiplicities {:?}; all eight masks must be tried exactly once ({:?})",
        rec.len(),
        seen,
        bc
    );
    let g = geometry(v);
    // (2) same placed codewords under every candidate
    let mut cands: Vec<Vec<bool>> = vec![Vec::new(); 8];
    for c in &rec {
        ensure!(c.matrix.size == n, "candidate_size", "candidate of mask {} has size {} but the symbol has {}", mask_no(c.mask), c.matrix.size, n);
        cands[mask_no(c.mask) as usize] = c.matrix.data[..n * n].iter().map(|m| m.value()).collect();
    }
    let unmask = |k: usize| -> Vec<bool> { g.order.iter().map(|&(r, c)| cands[k][r * n + c] ^ mask_cond(k as u8, r, c)).collect() };
    let base = unmask(0);
    for k in 1..8 {
        ensure!(unmask(k) == base, "candidate_codewords", "candidate for mask {} does not carry the same placed codewords as the candidate for mask 0 ({:?})", k, bc);
    }
    // (3) independent penalty model on independently derived candidates: the emitted symbol, un-masked with the
    // emitted mask and re-masked with each of the eight ISO patterns. While candidates are compared the format
    // information is either still blank (what this crate does: the reserved area is light) or that candidate's
    // own format word (the ISO reading); the property does not say which, so the emitted mask must be minimal
    // under at least one of the two. Anything else in the format area (stale bits of an earlier build) is neither.
    let vals = built.values();
    let mut base = vals.clone();
    for &(r, c) in &g.order {
        base[r * n + c] ^= mask_cond(emitted, r, c);
    }
    let level_bits = bc.effective_level().format_bits();
    let derive = |k: u8, own_format: bool| -> Vec<bool> {
        let mut m = base.clone();
        for &(r, c) in &g.order {
            m[r * n + c] ^= mask_cond(k, r, c);
        }
        let fw = refmodel::geom::format_word(level_bits, k);
        for copy in 0..2 {
            for i in 0..15 {
                let (r, c) = g.format_pos[copy][i];
                m[r * n + c] = own_format && (fw >> i) & 1 == 1;
            }
        }
        m
    };
    let indep_a: Vec<Vec<bool>> = (0..8u8).map(|k| derive(k, false)).collect();
    let pens: Vec<Penalty> = (0..8).map(|k| penalty(&indep_a[k], v)).collect();
    let totals: Vec<u32> = pens.iter().map(|p| p.total()).collect();
    let totals_b: Vec<u32> = (0..8u8).map(|k| penalty(&derive(k, true), v).total()).collect();
    let min = *totals.iter().min().unwrap();
    let min_b = *totals_b.iter().min().unwrap();
    let mut sorted = totals.clone();
    sorted.sort();
    let gap = sorted[1] - sorted[0];
    // diagnostics only: do the recorded candidates / ranking scores equal the model?
    let mut mism = 0;
    let mut cand_mism = 0;
    for c in &rec {
        let k = mask_no(c.mask) as usize;
        if c.score != totals[k] {
            mism += 1;
        }
        if cands[k] != indep_a[k] {
            cand_mism += 1;
        }
    }
    obs.count("candidates_scored", 8);
    obs.count("score_model_mismatch", mism);
    obs.count("candidate_model_mismatch", cand_mism);
    if totals[emitted as usize] != min && totals_b[emitted as usize] != min_b {
        let rows_only: Vec<u32> = pens.iter().map(|p| p.total_rows_only()).collect();
        let rmin = *rows_only.iter().min().unwrap();
        // signature: is the emitted mask what a scorer ignoring the column terms would pick?
        let sig = if rows_only[emitted as usize] == rmin { "not_argmin:consistent_with_row_only_scoring" } else { "not_argmin" };
        let best = totals.iter().position(|&t| t == min).unwrap();
        return fail(
            sig,
            format!(
                "v{} {}: emitted mask {} has documented penalty {} but mask {} has {}; penalties by mask {:?} (format area blank) / {:?} (own format word); ranking scores used by the crate {:?}; prelude {} ({:?})",
                v,
                bc.effective_level().name(),
                emitted,
                totals[emitted as usize],
                best,
                min,
                totals,
                totals_b,
                {
                    let mut s = vec![0u32; 8];
                    for c in &rec {
                        s[mask_no(c.mask) as usize] = c.score;
                    }
                    s
                },
                pre,
                bc
            ),
        );
    }
    // the emitted symbol is that candidate (plus format information)
    for &(r, c) in &g.order {
        if vals[r * n + c] != cands[emitted as usize][r * n + c] {
            return fail("emitted_not_candidate", format!("emitted symbol differs from the recorded candidate of mask {} at (row {}, col {})", emitted, r, c));
        }
    }
    let rows_only: Vec<u32> = pens.iter().map(|p| p.total_rows_only()).collect();
    let row_argmin_differs = {
        let rmin = *rows_only.iter().min().unwrap();
        // some row-only minimiser is not a full minimiser
        (0..8).any(|k| rows_only[k] == rmin && totals[k] != min)
    };
    if gap <= 10 {
        obs.label("best_two_within_10");
    }
    if gap == 0 {
        obs.label("tie_for_minimum");
    }
    if row_argmin_differs {
        obs.label("row_only_argmin_differs");
    }
    if gap <= 10 || row_argmin_differs {
        obs.nontrivial(bc.hash());
    }
    obs.sample(&format!("band:{}|{}", crate::gens::version_band(v), if row_argmin_differs { "row_only_differs" } else { "plain" }), || {
        let mut s = bc.to_sample();
        s["version_built"] = json!(v);
        s["emitted_mask"] = json!(emitted);
        s["penalties"] = json!(totals);
        s
    });
    Ok(())
}

pub fn replay(_e: &Engine, case: &Value, obs: &mut Obs) -> Result<(), Fail> {
    let b = BuildCase::from_json(case).ok_or_else(|| Fail { sig: "bad_replay".into(), msg: "cannot parse case".into() })?;
    match case.get("prelude").and_then(|x| x.as_u64()) {
        Some(p) => check_pre(&b, p as u8, "replay", obs),
        None => check(&b, "replay", obs),
    }
}

pub fn run(e: &'static Engine) {
    e.set_rule(
        "Enumerated: all 160 (version, level) x 2 generated payloads with automatic mask, plus every (version, level) x 8 forced \
         masks (override check). Generated: random cells weighted to versions 1-6 (small penalty gaps, frequent ties). Oracle: \
         recorder hook yields the 8 (mask, ranking score, candidate) triples: exactly the 8 ISO masks once each; un-masking each \
         candidate gives identical placed codewords; the independent penalty model (runs N>=5 -> N-2 and 40 per 1011101 window on \
         encoding-region modules along all rows and columns of that candidate, 3 per uniform 2x2 encoding block, 10 per 5% step of \
         the floored dark percentage) must satisfy penalty(emitted) == min over the 8; ties may go to any minimal mask. Ranking-score \
         vs model differences are diagnostic only (counter score_model_mismatch). Non-trivial: best two candidates within 10 points, \
         or a row-only scorer would have a different arg-min; distinct by case hash.",
    );
    e.extend_rule("enumerated extreme textures (flat, mask-pattern, chequer, stripe and finder-ratio fills in both polarities: the largest penalty terms a version can produce), each after a generated prelude.");
    e.assume("hook: verif_hooks::record_candidate records the candidate exactly as scored; inert unless armed");
    e.assume("'10 per 5% step' is read on the floored integer percentage as in the crate's documented table");
    crate::engine::run_regress(e, &|c, o| replay(e, c, o));
    let per: u32 = e.tier.pick(2, 12);
    let mut jobs: Vec<Job> = Vec::new();
    for v in 1..=40usize {
        jobs.push(Box::new(move |jc: &mut JobCtx| {
            let mut salt = 0u64;
            for &level in LEVELS.iter() {
                salt += 1;
                let strat = (0usize..3, any::<bool>(), any::<bool>()).prop_flat_map(move |(mi, fm, fv)| {
                    let cell = Cell { version: v, level, mode: Mode::from_index(mi) };
                    case_in_cell(cell, Force { mode: fm, level: true, version: fv }, None)
                });
                jc.run_prop(salt, &strat, per, |(c, _)| c.to_json(), |(c, fam), o| {
                    o.label("part:enumerated_auto");
                    check(c, fam, o)
                });
                for mk in 0..8u8 {
                    salt += 1;
                    let strat = (0usize..3, any::<bool>()).prop_flat_map(move |(mi, fm)| {
                        let cell = Cell { version: v, level, mode: Mode::from_index(mi) };
                        case_in_cell(cell, Force { mode: fm, level: true, version: true }, Some(mk))
                    });
                    jc.run_prop(salt, &strat, 1, |(c, _)| c.to_json(), |(c, fam), o| {
                        o.label("part:forced_override");
                        check(c, fam, o)
                    });
                }
            }
        }));
    }
    e.par(jobs);
    let total: u32 = e.tier.pick(19200, 320000);
    let shards = e.tier.pick(32u32, 96);
    let mut jobs: Vec<Job> = Vec::new();
    for _ in 0..shards {
        jobs.push(Box::new(move |jc: &mut JobCtx| {
            let strat = (
                (prop_oneof![3 => 0usize..72, 1 => 0usize..480], any::<bool>(), any::<bool>(), any::<bool>())
                    .prop_flat_map(|(ci, fm, fl, fv)| case_in_cell(Cell::from_index(ci), Force { mode: fm, level: fl, version: fv }, None)),
                0u8..5,
            );
            jc.run_prop(1 << 20, &strat, total / shards / 4, |((c, _), pre)| case_json(c, *pre), |((c, fam), pre), o| {
                o.label("part:generated");
                check_pre(c, *pre, fam, o)
            });
            // small/medium versions: exact ties and gaps below 10 points are frequent; every case runs after a generated prelude
            let strat = (crate::gens::auto_mask_small(), 0u8..5);
            jc.run_prop(2 << 20, &strat, total / shards / 2, |((c, _, _), pre)| case_json(c, *pre), |((c, fam, _), pre), o| {
                o.label("part:auto_mask_small");
                check_pre(c, *pre, fam, o)
            });
            // large versions with periodic payloads: a regular texture gives one candidate thousands of 1011101 windows
            // or maximal run counts, the region where accumulated penalties are largest
            let strat = (
                (27usize..=40, 0usize..4, any::<u8>(), proptest::collection::vec(any::<u8>(), 1..4), any::<bool>(), any::<u16>()).prop_map(|(v, li, b, unit, constant, cut)| {
                    let level = Level::from_index(li);
                    let cap = capacity(v, level, Mode::Byte);
                    let len = if cut % 3 == 0 { cap } else { cap - crate::gens::pick(cut, cap / 4) };
                    let input: Vec<u8> = if constant { vec![b; len] } else { (0..len).map(|i| unit[i % unit.len()]).collect() };
                    (BuildCase::new(input, crate::fq::Opts { mode: Some(Mode::Byte), level: Some(level), version: Some(v), mask: None }), if constant { "byte_constant" } else { "byte_periodic" }) as (BuildCase, &'static str)
                }),
                0u8..5,
            );
            jc.run_prop(5 << 20, &strat, (total / shards / 40).max(4), |((c, _), pre)| case_json(c, *pre), |((c, fam), pre), o| {
                o.label("part:large_periodic");
                check_pre(c, *pre, fam, o)
            });
            // large versions with steered word-boundary patterns over many lines inside random filler: accumulated
            // per-line scoring slips of a few points each can outweigh the usually small gap between the best candidates
            let strat = (crate::gens::steered_case(27, 40, false), 0u8..5);
            jc.run_prop(6 << 20, &strat, (total / shards / 12).max(4), |((c, _), pre)| case_json(c, *pre), |((c, fam), pre), o| {
                o.label("part:steered_large");
                check_pre(c, *pre, fam, o)
            });
            // steered matrices: long runs, finder look-alikes and uniform blocks at the symbol edges and next to function patterns
            let strat = (crate::gens::steered_case(1, 12, false), 0u8..5);
            jc.run_prop(3 << 20, &strat, total / shards / 4, |((c, _), pre)| case_json(c, *pre), |((c, fam), pre), o| {
                o.label("part:steered");
                check_pre(c, *pre, fam, o)
            });
        }));
    }
    e.par(jobs);
    super::common::extreme_parts(e, |c, fam, o| check_pre(c, (c.input.len() % 5) as u8, fam, o));
    e.set_exhaustive(false, "all 160 (version, level) pairs x all 8 candidates per build; payloads are sampled");
}
