//! C11 — automatic mask minimises the documented penalty over all eight masks.
//! Uses the guarded recorder hook in the selection loop.

use super::common::label_case;
use crate::engine::{catch, fail, Engine, Fail, Job, JobCtx, Obs};
use crate::ensure;
use crate::fq::{mask_no, BuildCase};
use crate::gens::{case_in_cell, Cell, Force};
use fast_qr::verif_hooks;
use proptest::prelude::*;
use refmodel::geom::{geometry, mask_cond};
use refmodel::penalty::{penalty, Penalty};
use refmodel::tables::*;
use serde_json::{json, Value};

/// Builds executed on the same thread immediately before the build under test (a history): hidden state left
/// behind by an earlier build of the same version (a reused working matrix, a cached template) must not change
/// which mask is selected. `pre`: 0 none, 1 sibling, 2 sibling twice, 3 sibling with forced mask 7 then sibling,
/// 4 a larger version then sibling. A sibling has the same version, level and mode and a different payload.
fn run_prelude(bc: &BuildCase, pre: u8) {
    if pre == 0 {
        return;
    }
    let mode = bc.effective_mode();
    let level = bc.effective_level();
    let Some(version) = bc.opts.version.or_else(|| min_version(level, mode, bc.input.len())) else { return };
    let payload: Vec<u8> = bc
        .input
        .iter()
        .map(|&b| match mode {
            Mode::Numeric => b'0' + (b.wrapping_sub(b'0') + 3) % 10,
            Mode::Alphanumeric => ALNUM_SET[(alnum_value(b).unwrap_or(0) as usize + 7) % 45],
            Mode::Byte => b ^ 0x5A,
        })
        .collect();
    let sib = |mask: Option<u8>, v: usize| BuildCase::new(payload.clone(), crate::fq::Opts { mode: Some(mode), level: Some(level), version: Some(v), mask });
    let run = |c: BuildCase| {
        let _ = catch(|| c.builder().build().map(|q| q.size));
    };
    match pre {
        1 => run(sib(None, version)),
        2 => {
            run(sib(None, version));
            run(sib(None, version));
        }
        3 => {
            run(sib(Some(7), version));
            run(sib(None, version));
        }
        _ => {
            run(sib(None, (version + 3).min(40)));
            run(sib(None, version));
        }
    }
}

pub fn case_json(bc: &BuildCase, pre: u8) -> Value {
    let mut j = bc.to_json();
    j["prelude"] = json!(pre);
    j
}

pub fn check(bc: &BuildCase, fam: &str, obs: &mut Obs) -> Result<(), Fail> {
    check_pre(bc, (bc.hash() % 5) as u8, fam, obs)
}

pub fn check_pre(bc: &BuildCase, pre: u8, fam: &str, obs: &mut Obs) -> Result<(), Fail> {
    run_prelude(bc, pre);
    obs.label(&format!("prelude:{}", pre));
    let b = bc.builder();
    let r = catch(|| {
        verif_hooks::arm();
        let r = b.build().map(Box::new);
        let rec = verif_hooks::take();
        (r, rec)
    });
    let (res, rec) = match r {
        Ok(x) => x,
        Err(_panic) => {
            // no symbol returned: totality is C10's question, not the mask selection's
            let _ = catch(|| verif_hooks::take());
            obs.label("no_symbol:panic");
            return Ok(());
        }
    };
    let qr = match res {
        Ok(q) => q,
        Err(_) => {
            obs.label("no_symbol");
            return Ok(());
        }
    };
    let built = crate::fq::Built { qr };
    label_case(obs, bc, fam, Some(&built));
    let n = built.size();
    let v = version_from_size(n).ok_or_else(|| Fail { sig: "size".into(), msg: format!("bad size {}", n) })?;
    let emitted = built.qr.mask.map(mask_no);
    if let Some(f) = bc.opts.mask {
        // (4) a forced mask always overrides the selection
        ensure!(emitted == Some(f), "forced_mask_overridden", "mask {} forced but {:?} emitted ({:?})", f, emitted, bc);
        // the symbol must physically carry it too
        let g = geometry(v);
        let vals = built.values();
        let mut w = 0u16;
        for i in 0..15 {
            let (r, c) = g.format_pos[0][i];
            if vals[r * n + c] {
                w |= 1 << i;
            }
        }
        let named = refmodel::geom::format_decode_nearest(w).map(|x| x.1);
        ensure!(named == Some(f), "forced_mask_overridden", "mask {} forced but the format information names {:?} ({:?})", f, named, bc);
        obs.label("forced_mask");
        obs.nontrivial(bc.hash());
        return Ok(());
    }
    let emitted = emitted.ok_or_else(|| Fail { sig: "mask_none".into(), msg: "QRCode.mask is None".into() })?;
    // (1) exactly the eight ISO masks, each once
    let mut seen = [0usize; 8];
    for c in &rec {
        seen[mask_no(c.mask) as usize] += 1;
    }
    ensure!(
        rec.len() == 8 && seen.iter().all(|&k| k == 1),
        "candidates",
        "selection evaluated {} candidates with mask multiplicities {:?}; all eight masks must be tried exactly once ({:?})",
        rec.len(),
        seen,
        bc
    );
    let g = geometry(v);
    // (2) same placed codewords under every candidate
    let mut cands: Vec<Vec<bool>> = vec![Vec::new(); 8];
    for c in &rec {
        ensure!(c.matrix.size == n, "candidate_size", "candidate of mask {} has size {} but the symbol has {}", mask_no(c.mask), c.matrix.size, n);
        cands[mask_no(c.mask) as usize] = c.matrix.data[..n * n].iter().map(|m| m.value()).collect();
    }
    let unmask = |k: usize| -> Vec<bool> { g.order.iter().map(|&(r, c)| cands[k][r * n + c] ^ mask_cond(k as u8, r, c)).collect() };
    let base = unmask(0);
    for k in 1..8 {
        ensure!(unmask(k) == base, "candidate_codewords", "candidate for mask {} does not carry the same placed codewords as the candidate for mask 0 ({:?})", k, bc);
    }
    // (3) independent penalty model on independently derived candidates: the emitted symbol, un-masked with the
    // emitted mask and re-masked with each of the eight ISO patterns. While candidates are compared the format
    // information is either still blank (what this crate does: the reserved area is light) or that candidate's
    // own format word (the ISO reading); the property does not say which, so the emitted mask must be minimal
    // under at least one of the two. Anything else in the format area (stale bits of an earlier build) is neither.
    let vals = built.values();
    let mut base = vals.clone();
    for &(r, c) in &g.order {
        base[r * n + c] ^= mask_cond(emitted, r, c);
    }
    let level_bits = bc.effective_level().format_bits();
    let derive = |k: u8, own_format: bool| -> Vec<bool> {
        let mut m = base.clone();
        for &(r, c) in &g.order {
            m[r * n + c] ^= mask_cond(k, r, c);
        }
        let fw = refmodel::geom::format_word(level_bits, k);
        for copy in 0..2 {
            for i in 0..15 {
                let (r, c) = g.format_pos[copy][i];
                m[r * n + c] = own_format && (fw >> i) & 1 == 1;
            }
        }
        m
    };
    let indep_a: Vec<Vec<bool>> = (0..8u8).map(|k| derive(k, false)).collect();
    let pens: Vec<Penalty> = (0..8).map(|k| penalty(&indep_a[k], v)).collect();
    let totals: Vec<u32> = pens.iter().map(|p| p.total()).collect();
    let totals_b: Vec<u32> = (0..8u8).map(|k| penalty(&derive(k, true), v).total()).collect();
    let min = *totals.iter().min().unwrap();
    let min_b = *totals_b.iter().min().unwrap();
    let mut sorted = totals.clone();
    sorted.sort();
    let gap = sorted[1] - sorted[0];
    // diagnostics only: do the recorded candidates / ranking scores equal the model?
    let mut mism = 0;
    let mut cand_mism = 0;
    for c in &rec {
        let k = mask_no(c.mask) as usize;
        if c.score != totals[k] {
            mism += 1;
        }
        if cands[k] != indep_a[k] {
            cand_mism += 1;
        }
    }
    obs.count("candidates_scored", 8);
    obs.count("score_model_mismatch", mism);
    obs.count("candidate_model_mismatch", cand_mism);
    if totals[emitted as usize] != min && totals_b[emitted as usize] != min_b {
        let rows_only: Vec<u32> = pens.iter().map(|p| p.total_rows_only()).collect();
        let rmin = *rows_only.iter().min().unwrap();
        // signature: is the emitted mask what a scorer ignoring the column terms would pick?
        let sig = if rows_only[emitted as usize] == rmin { "not_argmin:consistent_with_row_only_scoring" } else { "not_argmin" };
        let best = totals.iter().position(|&t| t == min).unwrap();
        return fail(
            sig,
            format!(
                "v{} {}: emitted mask {} has documented penalty {} but mask {} has {}; penalties by mask {:?} (format area blank) / {:?} (own format word); ranking scores used by the crate {:?}; prelude {} ({:?})",
                v,
                bc.effective_level().name(),
                emitted,
                totals[emitted as usize],
                best,
                min,
                totals,
                totals_b,
                {
                    let mut s = vec![0u32; 8];
                    for c in &rec {
                        s[mask_no(c.mask) as usize] = c.score;
                    }
                    s
                },
                pre,
                bc
            ),
        );
    }
    // the emitted symbol is that candidate (plus format information)
    for &(r, c) in &g.order {
        if vals[r * n + c] != cands[emitted as usize][r * n + c] {
            return fail("emitted_not_candidate", format!("emitted symbol differs from the recorded candidate of mask {} at (row {}, col {})", emitted, r, c));
        }
    }
    let rows_only: Vec<u32> = pens.iter().map(|p| p.total_rows_only()).collect();
    let row_argmin_differs = {
        let rmin = *rows_only.iter().min().unwrap();
        // some row-only minimiser is not a full minimiser
        (0..8).any(|k| rows_only[k] == rmin && totals[k] != min)
    };
    if gap <= 10 {
        obs.label("best_two_within_10");
    }
    if gap == 0 {
        obs.label("tie_for_minimum");
    }
    if row_argmin_differs {
        obs.label("row_only_argmin_differs");
    }
    if gap <= 10 || row_argmin_differs {
        obs.nontrivial(bc.hash());
    }
    obs.sample(&format!("band:{}|{}", crate::gens::version_band(v), if row_argmin_differs { "row_only_differs" } else { "plain" }), || {
        let mut s = bc.to_sample();
        s["version_built"] = json!(v);
        s["emitted_mask"] = json!(emitted);
        s["penalties"] = json!(totals);
        s
    });
    Ok(())
}

/// The dark-share term steps at multiples of 5 %: a candidate whose dark count sits exactly on a step (or one module
/// beside it) is where a rewritten table, a rounding or a symmetric shortcut shows. Random symbols stay within a few
/// per cent of 50 % and the extreme textures are far out, so the candidate of mask `m` is steered here: `k` data-area
/// modules (a seeded permutation) dark and the rest light under `m`, with `k` corrected after every build by the
/// distance of that candidate's dark count from the target (the error-correction modules move with every change, so
/// this is a search: at most `tries` builds). Every build of the search is checked in full like any other case.
/// target = ceil(t x total / 100) + delta: with delta 0 the share has just reached t % (exactly t % where t x total is a
/// multiple of 100: sizes divisible by 5), with delta -1 it is just below.
pub fn check_ratio_boundary(v: usize, level: Level, m: u8, t: usize, delta: i64, seed: u64, obs: &mut Obs) -> Result<(), Fail> {
    use crate::fq::Opts;
    let g = geometry(v);
    let n = g.size;
    let total = n * n;
    let target = ((t * total + 99) / 100) as i64 + delta;
    // seeded permutation of the data-area modules
    let mut cells: Vec<(usize, usize)> = g.order.clone();
    let mut x = crate::engine::splitmix(seed);
    for i in (1..cells.len()).rev() {
        x = crate::engine::splitmix(x);
        cells.swap(i, (x % (i as u64 + 1)) as usize);
    }
    let fixed_guess = (total - cells.len()) as i64 / 2;
    let mut k: i64 = (target - fixed_guess).clamp(0, cells.len() as i64);
    let tries = 60;
    let mut hit = false;
    for round in 0..tries {
        let cons: Vec<(usize, usize, bool)> = cells.iter().enumerate().map(|(i, &(r, c))| (r, c, (i as i64) < k)).collect();
        let (payload, _) = crate::gens::steer_payload(v, level, m, &cons, &[]);
        let bc = BuildCase::new(payload, Opts { mode: Some(Mode::Byte), level: Some(level), version: Some(v), mask: None });
        // how dark is the candidate of mask m?
        let b = bc.builder();
        let rec = match catch(|| {
            verif_hooks::arm();
            let _ = b.build().map(|q| q.size);
            verif_hooks::take()
        }) {
            Ok(r) => r,
            Err(_) => {
                let _ = catch(|| verif_hooks::take());
                obs.label("no_symbol:panic");
                return Ok(());
            }
        };
        let Some(c) = rec.iter().find(|c| mask_no(c.mask) == m) else { break };
        let d = c.matrix.data[..total].iter().filter(|x| x.value()).count() as i64;
        if (d - target).abs() <= 1 || round + 1 == tries {
            // on the step, or one module beside it: both sides of the step are wanted
            check_pre(&bc, 0, "dark_ratio_boundary", obs)?;
        }
        if d == target {
            hit = true;
            break;
        }
        let k2 = (k + target - d).clamp(0, cells.len() as i64);
        if k2 == k {
            // cannot move further (the target is out of reach for this version): another draw of the error correction
            cells.rotate_left(1);
        }
        k = k2;
    }
    obs.label(if hit { "dark_ratio_boundary:hit" } else { "dark_ratio_boundary:not_reached" });
    if hit {
        obs.label(&format!("dark_ratio_boundary:{}%{}", t, if (t * total) % 100 == 0 && delta == 0 { "_exactly" } else if delta < 0 { "_just_below" } else { "_just_reached" }));
        obs.nontrivial(crate::engine::hash_bytes(format!("ratio|{}|{}|{}|{}|{}", v, level.name(), m, t, delta).as_bytes()));
    }
    Ok(())
}

pub fn replay(_e: &Engine, case: &Value, obs: &mut Obs) -> Result<(), Fail> {
    if let Some(r) = case.get("ratio_boundary") {
        let g = |k: &str| r.get(k).and_then(|x| x.as_i64()).unwrap_or(0);
        return check_ratio_boundary(g("version").clamp(1, 40) as usize, Level::from_index(g("level").clamp(0, 3) as usize), g("mask").clamp(0, 7) as u8, g("percent").clamp(1, 99) as usize, g("delta"), r.get("seed").and_then(|x| x.as_str()).and_then(|x| x.parse().ok()).unwrap_or(0), obs);
    }
    let b = BuildCase::from_json(case).ok_or_else(|| Fail { sig: "bad_replay".into(), msg: "cannot parse case".into() })?;
    match case.get("prelude").and_then(|x| x.as_u64()) {
        Some(p) => check_pre(&b, p as u8, "replay", obs),
        None => check(&b, "replay", obs),
    }
}

pub fn run(e: &'static Engine) {
    e.set_rule(
        "Enumerated: all 160 (version, level) x 2 generated payloads with automatic mask, plus every (version, level) x 8 forced \
         masks (override check). Generated: random cells weighted to versions 1-6 (small penalty gaps, frequent ties). Oracle: \
         recorder hook yields the 8 (mask, ranking score, candidate) triples: exactly the 8 ISO masks once each; un-masking each \
         candidate gives identical placed codewords; the independent penalty model (runs N>=5 -> N-2 and 40 per 1011101 window on \
         encoding-region modules along all rows and columns of that candidate, 3 per uniform 2x2 encoding block, 10 per 5% step of \
         the floored dark percentage) must satisfy penalty(emitted) == min over the 8; ties may go to any minimal mask. Ranking-score \
         vs model differences are diagnostic only (counter score_model_mismatch). Non-trivial: best two candidates within 10 points, \
         or a row-only scorer would have a different arg-min; distinct by case hash.",
    );
    e.extend_rule("enumerated extreme textures (flat, mask-pattern, chequer, stripe and finder-ratio fills in both polarities: the largest penalty terms a version can produce), each after a generated prelude. Part dark_ratio_boundary: the candidate of a generated mask is steered (a search of at most 60 builds, each checked) until its dark count sits exactly on a 5 % step of the dark-share term (30..70 %, exactly t % where the size is divisible by 5) or one module below it.");
    e.assume("hook: verif_hooks::record_candidate records the candidate exactly as scored; inert unless armed");
    e.assume("'10 per 5% step' is read on the floored integer percentage as in the crate's documented table");
    crate::engine::run_regress(e, &|c, o| replay(e, c, o));
    let per: u32 = e.tier.pick(2, 12);
    let mut jobs: Vec<Job> = Vec::new();
    for v in 1..=40usize {
        jobs.push(Box::new(move |jc: &mut JobCtx| {
            let mut salt = 0u64;
            for &level in LEVELS.iter() {
                salt += 1;
                let strat = (0usize..3, any::<bool>(), any::<bool>()).prop_flat_map(move |(mi, fm, fv)| {
                    let cell = Cell { version: v, level, mode: Mode::from_index(mi) };
                    case_in_cell(cell, Force { mode: fm, level: true, version: fv }, None)
                });
                jc.run_prop(salt, &strat, per, |(c, _)| c.to_json(), |(c, fam), o| {
                    o.label("part:enumerated_auto");
                    check(c, fam, o)
                });
                for mk in 0..8u8 {
                    salt += 1;
                    let strat = (0usize..3, any::<bool>()).prop_flat_map(move |(mi, fm)| {
                        let cell = Cell { version: v, level, mode: Mode::from_index(mi) };
                        case_in_cell(cell, Force { mode: fm, level: true, version: true }, Some(mk))
                    });
                    jc.run_prop(salt, &strat, 1, |(c, _)| c.to_json(), |(c, fam), o| {
                        o.label("part:forced_override");
                        check(c, fam, o)
                    });
                }
            }
        }));
    }
    e.par(jobs);
    let total: u32 = e.tier.pick(19200, 320000);
    let shards = e.tier.pick(32u32, 96);
    let mut jobs: Vec<Job> = Vec::new();
    for _ in 0..shards {
        jobs.push(Box::new(move |jc: &mut JobCtx| {
            let strat = (
                (prop_oneof![3 => 0usize..72, 1 => 0usize..480], any::<bool>(), any::<bool>(), any::<bool>())
                    .prop_flat_map(|(ci, fm, fl, fv)| case_in_cell(Cell::from_index(ci), Force { mode: fm, level: fl, version: fv }, None)),
                0u8..5,
            );
            jc.run_prop(1 << 20, &strat, total / shards / 4, |((c, _), pre)| case_json(c, *pre), |((c, fam), pre), o| {
                o.label("part:generated");
                check_pre(c, *pre, fam, o)
            });
            // small/medium versions: exact ties and gaps below 10 points are frequent; every case runs after a generated prelude
            let strat = (crate::gens::auto_mask_small(), 0u8..5);
            jc.run_prop(2 << 20, &strat, total / shards / 2, |((c, _, _), pre)| case_json(c, *pre), |((c, fam, _), pre), o| {
                o.label("part:auto_mask_small");
                check_pre(c, *pre, fam, o)
            });
            // large versions with periodic payloads: a regular texture gives one candidate thousands of 1011101 windows
            // or maximal run counts, the region where accumulated penalties are largest
            let strat = (
                (27usize..=40, 0usize..4, any::<u8>(), proptest::collection::vec(any::<u8>(), 1..4), any::<bool>(), any::<u16>()).prop_map(|(v, li, b, unit, constant, cut)| {
                    let level = Level::from_index(li);
                    let cap = capacity(v, level, Mode::Byte);
                    let len = if cut % 3 == 0 { cap } else { cap - crate::gens::pick(cut, cap / 4) };
                    let input: Vec<u8> = if constant { vec![b; len] } else { (0..len).map(|i| unit[i % unit.len()]).collect() };
                    (BuildCase::new(input, crate::fq::Opts { mode: Some(Mode::Byte), level: Some(level), version: Some(v), mask: None }), if constant { "byte_constant" } else { "byte_periodic" }) as (BuildCase, &'static str)
                }),
                0u8..5,
            );
            jc.run_prop(5 << 20, &strat, (total / shards / 40).max(4), |((c, _), pre)| case_json(c, *pre), |((c, fam), pre), o| {
                o.label("part:large_periodic");
                check_pre(c, *pre, fam, o)
            });
            // large versions with steered word-boundary patterns over many lines inside random filler: accumulated
            // per-line scoring slips of a few points each can outweigh the usually small gap between the best candidates
            let strat = (crate::gens::steered_case(27, 40, false), 0u8..5);
            jc.run_prop(6 << 20, &strat, (total / shards / 12).max(4), |((c, _), pre)| case_json(c, *pre), |((c, fam), pre), o| {
                o.label("part:steered_large");
                check_pre(c, *pre, fam, o)
            });
            // steered matrices: long runs, finder look-alikes and uniform blocks at the symbol edges and next to function patterns
            let strat = (crate::gens::steered_case(1, 12, false), 0u8..5);
            jc.run_prop(3 << 20, &strat, total / shards / 4, |((c, _), pre)| case_json(c, *pre), |((c, fam), pre), o| {
                o.label("part:steered");
                check_pre(c, *pre, fam, o)
            });
        }));
    }
    e.par(jobs);
    super::common::extreme_parts(e, |c, fam, o| check_pre(c, (c.input.len() % 5) as u8, fam, o));
    // candidates steered onto the 5 % steps of the dark-share term
    let versions: Vec<usize> = if e.tier == crate::engine::Tier::Thorough { vec![1, 2, 3, 4, 7, 12, 17, 22] } else { vec![1, 2, 7, 12] };
    let mut jobs: Vec<Job> = Vec::new();
    for v in versions {
        for t in [30usize, 35, 40, 45, 50, 55, 60, 65, 70] {
            jobs.push(Box::new(move |jc: &mut JobCtx| {
                let strat = (0usize..2, 0u8..8, prop_oneof![2 => Just(0i64), 1 => Just(-1i64)], any::<u64>()).no_shrink();
                let per = jc.engine.tier.pick(3, 12);
                jc.run_prop((9 << 20) + (v * 100 + t) as u64, &strat, per, move |(li, m, d, s)| json!({"ratio_boundary": {"version": v, "level": li, "mask": m, "percent": t, "delta": d, "seed": s.to_string()}}), move |(li, m, d, s), o| {
                    o.label("part:dark_ratio_boundary");
                    check_ratio_boundary(v, Level::from_index(*li), *m, t, *d, *s, o)
                });
            }));
        }
    }
    e.par(jobs);
    e.set_exhaustive(false, "all 160 (version, level) pairs x all 8 candidates per build; payloads are sampled");
}
