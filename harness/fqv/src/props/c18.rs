//! C18 — embedded-image frame is centred, module-aligned and inside the symbol.

use super::common::do_build;
use crate::engine::{catch, panic_sig, Engine, Fail, Job, JobCtx, Obs};
use crate::ensure;
use crate::fq::{BuildCase, Opts};
use crate::svgcase::*;
use fast_qr::convert::svg::SvgBuilder;
use proptest::prelude::*;
use refmodel::tables::*;
use serde_json::{json, Value};

#[derive(Clone, Debug)]
pub struct Case {
    pub version: usize,
    pub cfg: SvgCfg,
}

pub fn to_json(c: &Case) -> Value {
    json!({"version": c.version, "svg": c.cfg.to_json()})
}

fn from_json(v: &Value) -> Option<Case> {
    Some(Case { version: v.get("version")?.as_u64()? as usize, cfg: SvgCfg::from_json(v.get("svg")?)? })
}

#[derive(Clone, Copy, Debug)]
pub struct Frame {
    pub x: f64,
    pub y: f64,
    pub w: f64,
    pub h: f64,
    pub ix: f64,
    pub iy: f64,
    pub iw: f64,
    pub ih: f64,
}

pub fn frame_of(svg: &str) -> Result<Frame, Fail> {
    let doc = roxmltree::Document::parse(svg).map_err(|e| Fail { sig: "ill_formed".into(), msg: format!("SVG is not well-formed: {}", e) })?;
    let root = doc.root_element();
    let rects: Vec<roxmltree::Node> = root.children().filter(|c| c.is_element() && c.tag_name().name() == "rect").collect();
    let imgs: Vec<roxmltree::Node> = root.children().filter(|c| c.is_element() && c.tag_name().name() == "image").collect();
    ensure!(rects.len() == 2 && imgs.len() == 1, "elements", "{} rect and {} image elements, expected background + frame and one image", rects.len(), imgs.len());
    let num = |n: &roxmltree::Node, a: &str| -> Result<f64, Fail> {
        let s = n.attribute(a).ok_or_else(|| Fail { sig: "attribute_missing".into(), msg: format!("<{}> has no attribute {}", n.tag_name().name(), a) })?;
        s.trim_end_matches("px").parse::<f64>().map_err(|_| Fail { sig: "attribute_nan".into(), msg: format!("<{}> {}={:?} is not a number", n.tag_name().name(), a, s) })
    };
    let f = &rects[1];
    let i = &imgs[0];
    Ok(Frame { x: num(f, "x")?, y: num(f, "y")?, w: num(f, "width")?, h: num(f, "height")?, ix: num(i, "x")?, iy: num(i, "y")?, iw: num(i, "width")?, ih: num(i, "height")? })
}

const EPS: f64 = 1e-9;
/// the image attributes are printed with two decimals
const EPS2: f64 = 0.006;

pub fn check(c: &Case, obs: &mut Obs) -> Result<Option<Frame>, Fail> {
    check_via(c, false, obs)
}

/// The SVG of the case through the JS/WASM export `qr_svg` (host-compiled through the guarded hook): the third
/// documented way to give the placement options. Its `image_size(size, gap)` sets both values at once.
#[cfg(not(fast_qr_verif))]
fn wasm_svg(_c: &Case) -> Result<String, Fail> {
    unreachable!("check_via returns before this in the plain build")
}

#[cfg(fast_qr_verif)]
fn wasm_svg(c: &Case) -> Result<String, Fail> {
    use fast_qr::verif_wasm_host as wasm;
    let cfg = c.cfg.clone();
    let v = c.version;
    catch(move || {
        let mut o = wasm::SvgOptions::new().ecl(crate::fq::f_level(Level::L)).version(crate::fq::f_version(v));
        if let Some(m) = cfg.margin {
            o = o.margin(m);
        }
        if let Some(i) = &cfg.image {
            o = o.image(i.clone());
        }
        if let Some(s) = cfg.image_bg_shape {
            o = o.image_background_shape(BG_SHAPES[s]);
        }
        if let (Some(s), Some(g)) = (cfg.image_size, cfg.image_gap) {
            o = o.image_size(s, g);
        }
        if let Some((x, y)) = cfg.image_position {
            o = o.image_position(vec![x, y]);
        }
        wasm::qr_svg("C18", o)
    })
    .map_err(|p| Fail { sig: panic_sig(&p), msg: format!("wasm qr_svg panicked: {} ({})", p, to_json(c)) })
}

pub fn check_via(c: &Case, via_wasm: bool, obs: &mut Obs) -> Result<Option<Frame>, Fail> {
    if via_wasm && !cfg!(fast_qr_verif) {
        // the pass over fast_qr built WITHOUT the verification flag has no host-compiled wasm module
        obs.label("wasm_entry_points:not_in_the_plain_build");
        return Ok(None);
    }
    let v = c.version;
    let bc = BuildCase::new(b"C18".to_vec(), Opts { mode: None, level: Some(Level::L), version: Some(v), mask: Some(0) });
    let built = match do_build(&bc)? {
        Ok(b) => b,
        Err(_) => return Ok(None),
    };
    let n = built.size();
    let m = c.cfg.margin_eff();
    let s_total = (n + 2 * m) as f64;
    let svg = if via_wasm {
        obs.label("entry:wasm_qr_svg");
        wasm_svg(c)?
    } else {
        catch(|| c.cfg.svg_string(&built.qr)).map_err(|p| Fail { sig: panic_sig(&p), msg: format!("SvgBuilder panicked: {} ({})", p, to_json(c)) })?
    };
    let f = frame_of(&svg).map_err(|mut f| {
        if via_wasm {
            f.sig = format!("wasm:{}", f.sig);
        }
        f
    })?;
    let cfg = &c.cfg;
    ensure!((f.w - f.h).abs() <= EPS, "frame_not_square", "frame is {} x {} ({})", f.w, f.h, to_json(c));
    ensure!((f.iw - f.ih).abs() <= EPS, "image_not_square", "image is {} x {} ({})", f.iw, f.ih, to_json(c));
    // image centred in the frame (both axes), in every configuration
    let fcx = f.x + f.w / 2.0;
    let fcy = f.y + f.h / 2.0;
    let icx = f.ix + f.iw / 2.0;
    let icy = f.iy + f.ih / 2.0;
    ensure!(
        (fcx - icx).abs() <= 2.0 * EPS2 && (fcy - icy).abs() <= 2.0 * EPS2,
        "image_not_centred_in_frame",
        "image centre ({:.3}, {:.3}) differs from frame centre ({:.3}, {:.3}) ({})",
        icx, icy, fcx, fcy, to_json(c)
    );
    let default_placement = cfg.image_size.is_none() && cfg.image_gap.is_none() && cfg.image_position.is_none();
    if default_placement {
        ensure!((f.x - f.y).abs() <= EPS, "frame_off_diagonal", "frame x {} != y {} ({})", f.x, f.y, to_json(c));
        ensure!((fcx - s_total / 2.0).abs() <= EPS, "frame_not_centred", "frame centre {} but the symbol centre is {} (v{}, margin {})", fcx, s_total / 2.0, v, m);
        ensure!(
            (f.x - f.x.round()).abs() <= EPS && ((f.x + f.w) - (f.x + f.w).round()).abs() <= EPS,
            "frame_not_on_module_boundary",
            "frame spans {}..{} — edges must lie on module boundaries (v{}, margin {}, shape {:?})",
            f.x, f.x + f.w, v, m, cfg.image_bg_shape
        );
        ensure!(f.w < 0.4 * n as f64, "frame_too_large", "frame side {} is not below 40% of the symbol side {} (v{})", f.w, n, v);
        let sx = f.x - m as f64;
        ensure!(
            sx >= 7.0 - EPS && sx + f.w <= (n - 7) as f64 + EPS,
            "frame_touches_finder",
            "frame spans symbol coordinates {}..{}, not clear of the 7-module finder patterns of a size-{} symbol",
            sx, sx + f.w, n
        );
        ensure!(f.iw <= f.w + EPS2 && f.iw > 0.0, "image_larger_than_frame", "image side {} exceeds frame side {} (v{})", f.iw, f.w, v);
    } else {
        if let Some(s) = cfg.image_size {
            ensure!((f.iw - s).abs() <= EPS2, "image_size_not_honoured", "image side {} but size {} requested ({})", f.iw, s, to_json(c));
        }
        if let Some(g) = cfg.image_gap {
            let got = (f.w - f.iw) / 2.0;
            ensure!(
                got >= g - 0.5 - EPS2 && got <= g + EPS2,
                "gap_not_honoured",
                "frame exceeds the image by {} on each side, requested gap {} (allowed {}..{}) ({})",
                got, g, g - 0.5, g, to_json(c)
            );
        }
        match cfg.image_position {
            Some((px, py)) => {
                ensure!(
                    (fcx - px).abs() <= 1e-6 && (fcy - py).abs() <= 1e-6,
                    "position_not_honoured",
                    "frame centre ({}, {}) but position ({}, {}) requested ({})",
                    fcx, fcy, px, py, to_json(c)
                );
            }
            None => {
                ensure!(
                    (fcx - s_total / 2.0).abs() <= 1e-6 && (fcy - s_total / 2.0).abs() <= 1e-6,
                    "frame_not_centred",
                    "frame centre ({}, {}) but the symbol centre is {} ({})",
                    fcx, fcy, s_total / 2.0, to_json(c)
                );
            }
        }
    }
    let overrides = cfg.image_size.is_some() as usize + cfg.image_gap.is_some() as usize + cfg.image_position.is_some() as usize;
    obs.label(&format!("overrides:{}", overrides));
    obs.label(&format!("frame_shape:{}", cfg.image_bg_shape.map(|s| BG_SHAPE_NAMES[s]).unwrap_or("default")));
    if default_placement || overrides >= 2 {
        obs.nontrivial(crate::engine::hash_value(&to_json(c)));
    }
    obs.sample(&format!("overrides:{}", overrides), || json!({"case": to_json(c), "frame": {"x": f.x, "y": f.y, "side": f.w}, "image": {"x": f.ix, "y": f.iy, "side": f.iw}}));
    Ok(Some(f))
}

fn b64(data: &[u8]) -> String {
    const T: &[u8; 64] = b"ABCDEFGHIJKLMNOPQRSTUVWXYZabcdefghijklmnopqrstuvwxyz0123456789+/";
    let mut out = String::new();
    for ch in data.chunks(3) {
        let b = [ch[0], *ch.get(1).unwrap_or(&0), *ch.get(2).unwrap_or(&0)];
        let n = (b[0] as u32) << 16 | (b[1] as u32) << 8 | b[2] as u32;
        out.push(T[(n >> 18) as usize & 63] as char);
        out.push(T[(n >> 12) as usize & 63] as char);
        out.push(if ch.len() > 1 { T[(n >> 6) as usize & 63] as char } else { '=' });
        out.push(if ch.len() > 2 { T[n as usize & 63] as char } else { '=' });
    }
    out
}

/// data URI of a real 8x8 PNG of one opaque colour (encoded with the png crate)
pub fn solid_png_uri(rgb: [u8; 3]) -> String {
    format!("data:image/png;base64,{}", b64(&solid_png(rgb)))
}

/// a real 8x8 PNG of one opaque colour (encoded with the png crate)
pub fn solid_png(rgb: [u8; 3]) -> Vec<u8> {
    let mut bytes = Vec::new();
    {
        let mut enc = png::Encoder::new(&mut bytes, 8, 8);
        enc.set_color(png::ColorType::Rgb);
        enc.set_depth(png::BitDepth::Eight);
        let mut w = enc.write_header().expect("png header");
        let px: Vec<u8> = (0..64).flat_map(|_| rgb).collect();
        w.write_image_data(&px).expect("png data");
    }
    bytes
}

/// The same placement options through the OTHER documented entry point, the raster builder: ImageBuilder forwards
/// image(), image_size(), image_gap(), image_position(), image_background_shape/color() to the SVG builder, so the
/// pixmap must show the embedded image and its frame exactly where the (separately checked) SVG geometry puts them.
/// Sampled at 8 px per module: centre of the image = image colour; a point of the frame beside the image = frame
/// colour; the four points one module outside the frame's sides = module or background colour per the matrix.
pub fn check_raster(c: &Case, obs: &mut Obs) -> Result<(), Fail> {
    const IMG: [u8; 3] = [0, 200, 0];
    const FRAME: [u8; 3] = [0, 0, 220];
    let mut cfg = c.cfg.clone();
    cfg.image = Some(solid_png_uri(IMG));
    cfg.image_bg_color = Some(ColorSpec::Rgb(FRAME));
    cfg.image_bg_shape = Some(0); // square frame: every point of the frame rectangle is frame-coloured
    cfg.warm = None;
    cfg.layers.clear();
    cfg.module_color = None;
    cfg.background = None;
    let bc = BuildCase::new(b"C18 RASTER".to_vec(), Opts { mode: None, level: Some(Level::L), version: Some(c.version), mask: Some(2) });
    let built = match do_build(&bc)? {
        Ok(b) => b,
        Err(_) => return Ok(()),
    };
    let n = built.size();
    let m = cfg.margin_eff();
    let s_total = n + 2 * m;
    let svg = catch(|| cfg.svg_string(&built.qr)).map_err(|p| Fail { sig: panic_sig(&p), msg: format!("SvgBuilder panicked: {}", p) })?;
    let f = frame_of(&svg)?;
    let k = 8u32;
    let pm = catch(|| {
        let mut ib = fast_qr::convert::image::ImageBuilder::default();
        cfg.apply(&mut ib);
        ib.fit_width(s_total as u32 * k);
        ib.to_pixmap(&built.qr)
    })
    .map_err(|p| Fail { sig: panic_sig(&p), msg: format!("ImageBuilder with an embedded image panicked: {} ({})", p, cfg.to_json()) })?;
    ensure!(pm.width() == s_total as u32 * k, "raster:size", "pixmap side {} for {} modules at {} px", pm.width(), s_total, k);
    let px = |x: f64, y: f64| -> Option<[u8; 3]> {
        if x < 0.0 || y < 0.0 || x >= s_total as f64 || y >= s_total as f64 {
            return None;
        }
        let p = pm.pixel((x * k as f64) as u32, (y * k as f64) as u32)?.demultiply();
        Some([p.red(), p.green(), p.blue()])
    };
    let vals = built.values();
    let near = |a: [u8; 3], b: [u8; 3]| (0..3).all(|i| (a[i] as i32 - b[i] as i32).abs() <= 3);
    // centre of the image
    if let Some(p) = px(f.ix + f.iw / 2.0, f.iy + f.ih / 2.0) {
        ensure!(near(p, IMG), "raster:image", "pixel at the centre of the image rectangle ({:.2}, {:.2}) is {:?}, expected the image colour {:?}: the raster builder does not place the image where the SVG geometry says ({})", f.ix + f.iw / 2.0, f.iy + f.ih / 2.0, p, IMG, cfg.to_json());
        obs.label("raster:image_centre_checked");
    }
    // frame beside the image (when the frame exceeds the image by at least a quarter module)
    let side_gap = f.ix - f.x;
    if side_gap >= 0.25 {
        if let Some(p) = px(f.x + side_gap / 2.0, f.y + f.h / 2.0) {
            ensure!(near(p, FRAME), "raster:frame", "pixel inside the frame beside the image ({:.2}, {:.2}) is {:?}, expected the frame colour {:?} ({})", f.x + side_gap / 2.0, f.y + f.h / 2.0, p, FRAME, cfg.to_json());
            obs.label("raster:frame_checked");
        }
    }
    // one module outside each side of the frame: the symbol shows through
    for (x, y) in [(f.x - 0.5, f.y + f.h / 2.0), (f.x + f.w + 0.5, f.y + f.h / 2.0), (f.x + f.w / 2.0, f.y - 0.5), (f.x + f.w / 2.0, f.y + f.h + 0.5)] {
        let (cx, cy) = (x.floor(), y.floor());
        // sample the centre of that module cell, only if the whole cell is outside the frame
        let outside = cx + 1.0 <= f.x + 1e-9 || cx >= f.x + f.w - 1e-9 || cy + 1.0 <= f.y + 1e-9 || cy >= f.y + f.h - 1e-9;
        // with a gap below half a module the alignment adjustment may leave the frame smaller than the image (the
        // property allows it): the cell must also be clear of the image rectangle
        let clear_of_image = cx + 1.0 <= f.ix + 1e-9 || cx >= f.ix + f.iw - 1e-9 || cy + 1.0 <= f.iy + 1e-9 || cy >= f.iy + f.ih - 1e-9;
        if !outside || !clear_of_image {
            continue;
        }
        if let Some(p) = px(cx + 0.5, cy + 0.5) {
            let (c0, r0) = (cx as i64 - m as i64, cy as i64 - m as i64);
            let dark = c0 >= 0 && r0 >= 0 && (c0 as usize) < n && (r0 as usize) < n && vals[r0 as usize * n + c0 as usize];
            let want = if dark { [0u8, 0, 0] } else { [255u8, 255, 255] };
            ensure!(near(p, want), "raster:outside_frame", "pixel ({:.1}, {:.1}) just outside the frame is {:?}, expected {:?} ({} module): the raster frame is larger or elsewhere than the SVG geometry ({})", cx + 0.5, cy + 0.5, p, want, if dark { "dark" } else { "light" }, cfg.to_json());
        }
    }
    // every cell of the symbol and the quiet zone whose CENTRE lies clearly outside frame and image (a quarter module) shows
    // its own module: the frame hides what it covers, nothing more - also when its edges fall inside cells
    let clear = |x: f64, y: f64, rx: f64, ry: f64, rw: f64, rh: f64| x < rx - 0.25 || x > rx + rw + 0.25 || y < ry - 0.25 || y > ry + rh + 0.25;
    let mut partly_covered = 0;
    for cy in 0..s_total {
        for cx in 0..s_total {
            let (x, y) = (cx as f64 + 0.5, cy as f64 + 0.5);
            if !clear(x, y, f.x.min(f.x + f.w), f.y.min(f.y + f.h), f.w.abs(), f.h.abs()) || !clear(x, y, f.ix, f.iy, f.iw, f.ih) {
                continue;
            }
            let touches = (cx as f64) < f.x + f.w && (cx + 1) as f64 > f.x && (cy as f64) < f.y + f.h && (cy + 1) as f64 > f.y;
            if touches {
                partly_covered += 1;
            }
            if let Some(p) = px(x, y) {
                let (c0, r0) = (cx as i64 - m as i64, cy as i64 - m as i64);
                let dark = c0 >= 0 && r0 >= 0 && (c0 as usize) < n && (r0 as usize) < n && vals[r0 as usize * n + c0 as usize];
                let want = if dark { [0u8, 0, 0] } else { [255u8, 255, 255] };
                ensure!(near(p, want), "raster:cell_outside_frame", "centre ({:.1}, {:.1}) of a {} module outside the frame{} is {:?}, expected {:?} (frame {:.2}..{:.2} x {:.2}..{:.2}; {})", x, y, if dark { "dark" } else { "light" }, if touches { " (the cell is partly under the frame)" } else { "" }, p, want, f.x, f.x + f.w, f.y, f.y + f.h, cfg.to_json());
            }
        }
    }
    if partly_covered > 0 {
        obs.label("raster:cells_partly_under_frame_checked");
    }
    obs.nontrivial(crate::engine::hash_value(&json!({"raster": to_json(c)})));
    Ok(())
}

pub fn replay(_e: &Engine, case: &Value, obs: &mut Obs) -> Result<(), Fail> {
    let c = from_json(case).ok_or_else(|| Fail { sig: "bad_replay".into(), msg: "cannot parse case".into() })?;
    if case.get("raster").and_then(|x| x.as_bool()) == Some(true) {
        return check_raster(&c, obs);
    }
    if case.get("wasm").and_then(|x| x.as_bool()) == Some(true) {
        return check_via(&c, true, obs).map(|_| ());
    }
    check(&c, obs).map(|_| ())
}

fn real(lo: f64, hi: f64) -> BoxedStrategy<f64> {
    prop_oneof![
        2 => (lo.ceil() as i64..=hi.floor() as i64).prop_map(|x| x as f64),
        2 => ((2.0 * lo).ceil() as i64..=(2.0 * hi).floor() as i64).prop_map(|x| x as f64 / 2.0),
        3 => (0u32..=1_000_000).prop_map(move |t| lo + (hi - lo) * (t as f64) / 1_000_000.0),
    ]
    .boxed()
}

pub fn run(e: &'static Engine) {
    e.set_rule(
        "Exhaustive: all 40 versions x 3 frame shapes x margins 0..=16 with default placement (2 040 configurations). Generated: \
         version, margin, frame shape and each of size s in [1, 0.6 x size], gap g in [0, 6], position (x, y) in [0, S]^2 \
         independently present or absent, values drawn from integers, halves and arbitrary reals. Oracle (attributes of the frame \
         rect and the image element parsed with roxmltree; tolerance 1e-9 on full-precision attributes, 0.006 on the two-decimal \
         ones): defaults: frame square, x == y, centre == S/2, both edges integers, side(v) non-decreasing in v, side < 0.4 x size, \
         frame inside [7, size-7] in symbol coordinates, image centred in the frame and no larger. Overrides: image side == s; \
         with a gap (side - image)/2 in [g - 0.5, g]; frame centre == requested position (else the symbol centre); image centre == \
         frame centre. Non-trivial: default placement (exhaustive) or >= 2 overrides; distinct by configuration.",
    );
    e.extend_rule("part overrides_through_wasm; sizes up to 1.6 x canvas and gaps up to 0.8 x canvas; the raster cross-check samples every cell whose centre lies outside frame and image.");
    e.assume("requested sizes are >= 1 module, or smaller together with a gap >= 1 (without a gap a sub-module frame can become negative after the half-module alignment adjustment; outside the stated domain)");
    crate::engine::run_regress(e, &|c, o| replay(e, c, o));
    // exhaustive defaults; side(v) monotone per (shape, margin)
    let mut jobs: Vec<Job> = Vec::new();
    for shape in 0..3usize {
        for margin in 0..=16usize {
            jobs.push(Box::new(move |jc: &mut JobCtx| {
                let prev = std::cell::Cell::new(0.0f64);
                for v in 1..=40usize {
                    let c = Case { version: v, cfg: SvgCfg { margin: Some(margin), image: Some("logo.png".into()), image_bg_shape: Some(shape), ..SvgCfg::default() } };
                    jc.run_case(&c, to_json, |c, o| {
                        o.label("part:defaults_exhaustive");
                        if let Some(f) = check(c, o)? {
                            ensure!(f.w >= prev.get() - EPS, "frame_shrinks", "frame side {} at version {} is smaller than {} at version {} (shape {}, margin {})", f.w, v, prev.get(), v - 1, BG_SHAPE_NAMES[shape], margin);
                            prev.set(f.w);
                        }
                        Ok(())
                    });
                }
            }));
        }
    }
    e.par(jobs);
    let total: u32 = e.tier.pick(48000, 384000);
    let shards = e.tier.pick(16u32, 64);
    let mut jobs: Vec<Job> = Vec::new();
    for _ in 0..shards {
        jobs.push(Box::new(move |jc: &mut JobCtx| {
            let strat = (prop_oneof![3 => 1usize..=10, 1 => 1usize..=40], prop_oneof![Just(None), (0usize..=16).prop_map(Some)], prop_oneof![Just(None), (0usize..3).prop_map(Some)], any::<[bool; 3]>(), warm_strategy(), prop_oneof![1 => Just(0u8), 1 => any::<u8>()])
                .prop_flat_map(|(v, margin, shape, present, warm, order)| {
                    let n = size(v) as f64;
                    let s_total = n + 2.0 * margin.unwrap_or(4) as f64;
                    (
                        // sizes up to beyond the whole canvas (a frame larger than the symbol is a legitimate request)
                        if present[0] { prop_oneof![5 => real(1.0, 0.6 * n), 1 => real(0.6 * n, 1.6 * s_total)].prop_map(Some).boxed() } else { Just(None).boxed() },
                        if present[1] { prop_oneof![5 => real(0.0, 6.0), 1 => real(6.0, 0.8 * s_total)].prop_map(Some).boxed() } else { Just(None).boxed() },
                        if present[2] { (real(0.0, s_total), real(0.0, s_total)).prop_map(Some).boxed() } else { Just(None).boxed() },
                    )
                        .prop_map(move |(size_o, gap, pos)| {
                            // sizes below one module are requests like any other as long as the gap keeps the frame
                            // positive (gap >= 1): one sized case in eight is scaled down into (0.05, 1)
                            let size_o = match (size_o, gap) {
                                (Some(s), Some(g)) if g >= 1.0 && (s * 1000.0) as u64 % 8 == 0 => Some((s.fract() * 0.95 + 0.05).min(0.999)),
                                (s, _) => s,
                            };
                            Case {
                                version: v,
                                cfg: SvgCfg { margin, image: Some("logo.png".into()), image_bg_shape: shape, image_size: size_o, image_gap: gap, image_position: pos, warm, order, ..SvgCfg::default() },
                            }
                        })
                });
            jc.run_prop(1 << 20, &strat, total / shards, to_json, |c, o| {
                o.label("part:generated_overrides");
                check(c, o).map(|_| ())
            });
            // the same overrides given through the JS/WASM export (size and gap come as a pair there)
            let strat = (prop_oneof![3 => 1usize..=10, 1 => 1usize..=40], prop_oneof![Just(None), (0usize..=16).prop_map(Some)], prop_oneof![Just(None), (0usize..3).prop_map(Some)], any::<[bool; 2]>())
                .prop_flat_map(|(v, margin, shape, present)| {
                    let n = size(v) as f64;
                    let s_total = n + 2.0 * margin.unwrap_or(4) as f64;
                    (
                        if present[0] { (real(1.0, 0.6 * n), real(0.0, 6.0)).prop_map(Some).boxed() } else { Just(None).boxed() },
                        if present[1] { (real(0.0, s_total), real(0.0, s_total)).prop_map(Some).boxed() } else { Just(None).boxed() },
                    )
                        .prop_map(move |(sg, pos)| Case {
                            version: v,
                            cfg: SvgCfg { margin, image: Some("logo.png".into()), image_bg_shape: shape, image_size: sg.map(|x| x.0), image_gap: sg.map(|x| x.1), image_position: pos, ..SvgCfg::default() },
                        })
                });
            jc.run_prop(5 << 20, &strat, total / shards / 4, |c| { let mut j = to_json(c); j["wasm"] = json!(true); j }, |c, o| {
                o.label("part:overrides_through_wasm");
                check_via(c, true, o).map(|_| ())
            });
        }));
    }
    e.par(jobs);
    // the raster entry point with the same overrides (small symbols: a raster costs milliseconds)
    let total: u32 = e.tier.pick(960, 9600);
    let mut jobs: Vec<Job> = Vec::new();
    for _ in 0..shards {
        jobs.push(Box::new(move |jc: &mut JobCtx| {
            let strat = (1usize..=6, prop_oneof![Just(None), (0usize..=8).prop_map(Some)], any::<[bool; 3]>(), any::<u8>())
                .prop_flat_map(|(v, margin, present, order)| {
                    let n = size(v) as f64;
                    let s_total = n + 2.0 * margin.unwrap_or(4) as f64;
                    (
                        if present[0] { real(1.0, 0.5 * n).prop_map(Some).boxed() } else { Just(None).boxed() },
                        if present[1] { real(0.0, 4.0).prop_map(Some).boxed() } else { Just(None).boxed() },
                        if present[2] { (real(4.0, s_total - 4.0), real(4.0, s_total - 4.0)).prop_map(Some).boxed() } else { Just(None).boxed() },
                    )
                        .prop_map(move |(size_o, gap, pos)| Case {
                            version: v,
                            cfg: SvgCfg { margin, image: Some("x".into()), image_size: size_o, image_gap: gap, image_position: pos, order, ..SvgCfg::default() },
                        })
                });
            jc.run_prop(2 << 20, &strat, total / shards, |c| { let mut j = to_json(c); j["raster"] = json!(true); j }, |c, o| {
                o.label("part:raster_entry_point");
                check_raster(c, o)
            });
        }));
    }
    e.par(jobs);
    e.set_exhaustive(true, "default placement for all 40 versions x 3 frame shapes x margins 0..=16; overrides are sampled");
}
