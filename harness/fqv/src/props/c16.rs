//! C16 — terminal rendering encodes the matrix faithfully with a one-module border.

use super::common::do_build;
use crate::engine::{catch, fail, panic_sig, Engine, Fail, Job, JobCtx, Obs};
use crate::ensure;
use crate::fq::BuildCase;
use crate::gens::{case_in_cell, Cell, Force};
use proptest::prelude::*;
use refmodel::tables::*;
use serde_json::{json, Value};

pub fn check(bc: &BuildCase, obs: &mut Obs) -> Result<(), Fail> {
    let built = match do_build(bc)? {
        Ok(b) => b,
        Err(e) => {
            obs.label(&format!("no_symbol:{:?}", e));
            return Ok(());
        }
    };
    let mut built = built;
    if let Some(what) = built.edit_after_build(bc.hash() ^ 0x16) {
        obs.label(&format!("modules_edited_after_build:{}", what));
    }
    let n = built.size();
    let vals = built.values();
    // what happened on this thread just before (one case in four each): a rendering of ANOTHER, larger symbol; a
    // rendering attempt on a hand-made QRCode value of an impossible size (that call panics and is caught, as a thread
    // pool would). The rendering under test is a function of its own matrix only.
    match bc.hash() % 4 {
        2 => {
            let _ = catch(|| fast_qr::QRCode::default(if n % 8 == 1 { 178 } else { 200 }).to_str());
            obs.label("after_failed_rendering_on_this_thread");
        }
        3 => {
            let _ = catch(|| crate::fq::recycled_copy(&built.qr).to_str().len());
            let _ = catch(|| fast_qr::QRBuilder::new("PREDECESSOR").version(crate::fq::f_version(1 + (n + 7) % 40)).build().map(|q| q.to_str().len()));
            obs.label("after_other_rendering_on_this_thread");
        }
        _ => {}
    }
    let text = catch(|| built.qr.to_str()).map_err(|p| Fail { sig: panic_sig(&p), msg: format!("to_str panicked: {} ({:?})", p, bc) })?;
    check_text(&text, &vals, n, bc)?;
    if bc.hash() % 4 == 1 {
        // the same symbol held in a value that contained a larger symbol before (clone_from): same rendering
        let t2 = catch(|| crate::fq::recycled_copy(&built.qr).to_str()).map_err(|p| Fail { sig: panic_sig(&p), msg: format!("to_str on a clone_from copy panicked: {} ({:?})", p, bc) })?;
        check_text(&t2, &vals, n, bc).map_err(|f| Fail { sig: format!("recycled_copy:{}", f.sig), msg: format!("rendering of a clone_from copy (destination held a version-40 symbol): {}", f.msg) })?;
        obs.label("recycled_copy_rendered");
    }
    if bc.hash() % 3 == 0 {
        // the matrix is a public, editable value: after modules are changed (through the `data` field, through
        // `qr[row][col]`, or both) the rendering of the SAME object - and of a clone of it - shows the changed matrix
        let mut q2 = built.qr.clone();
        let mut v2 = vals.clone();
        let h = bc.hash();
        for k in 0..(1 + h % 5) as usize {
            let i = ((h >> 8) as usize).wrapping_mul(k * 2 + 1).wrapping_add(k * 7919) % (n * n);
            let now = !v2[i];
            v2[i] = now;
            let m = fast_qr::Module::data(if now { fast_qr::Module::DARK } else { fast_qr::Module::LIGHT });
            if (h >> 5) % 2 == 0 || k % 2 == 1 {
                q2.data[i] = m;
            } else {
                q2[i / n][i % n] = m;
            }
        }
        let t3 = catch(|| q2.to_str()).map_err(|p| Fail { sig: panic_sig(&p), msg: format!("to_str after editing modules panicked: {} ({:?})", p, bc) })?;
        check_text(&t3, &v2, n, bc).map_err(|f| Fail { sig: format!("edited:{}", f.sig), msg: format!("rendering after modules of the same object were edited: {}", f.msg) })?;
        let t4 = catch(|| q2.clone().to_str()).map_err(|p| Fail { sig: panic_sig(&p), msg: format!("to_str on a clone of an edited symbol panicked: {} ({:?})", p, bc) })?;
        check_text(&t4, &v2, n, bc).map_err(|f| Fail { sig: format!("edited_clone:{}", f.sig), msg: format!("rendering of a clone of an edited symbol: {}", f.msg) })?;
        obs.label("rendered_again_after_edit");
    }
    let lines: Vec<&str> = text.split('\n').collect();
    obs.label(&format!("band:{}", crate::gens::version_band(version_from_size(n).unwrap_or(1))));
    obs.nontrivial(bc.hash());
    obs.sample(&format!("band:{}", crate::gens::version_band(version_from_size(n).unwrap_or(1))), || {
        let mut s = bc.to_sample();
        s["lines"] = lines.len().into();
        s["first_line_prefix"] = lines[0].chars().take(12).collect::<String>().into();
        s
    });
    Ok(())
}

/// Everything C16 states about one text rendering of a matrix (`vals` row-major, side `n`).
pub fn check_text(text: &str, vals: &[bool], n: usize, bc: &BuildCase) -> Result<(), Fail> {
    let lines: Vec<&str> = text.split('\n').collect();
    let want_lines = (n + 1) / 2 + 1;
    ensure!(lines.len() == want_lines, "line_count", "size {}: {} lines, expected (size+1)/2+1 = {} ({:?})", n, lines.len(), want_lines, bc);
    // half-row h of the text = line h/2, top (h even) or bottom (h odd) half. dark = true.
    let mut half: Vec<Vec<bool>> = Vec::new();
    for (li, line) in lines.iter().enumerate() {
        let chars: Vec<char> = line.chars().collect();
        ensure!(chars.len() == n + 2, "line_width", "size {}: line {} has {} characters, expected size+2 = {} ({:?})", n, li, chars.len(), n + 2, bc);
        let mut top = Vec::with_capacity(n + 2);
        let mut bot = Vec::with_capacity(n + 2);
        for (ci, ch) in chars.iter().enumerate() {
            let (t, b) = match ch {
                ' ' => (true, true),
                '\u{2588}' => (false, false),
                '\u{2580}' => (false, true), // upper half block: top lit = light, bottom dark
                '\u{2584}' => (true, false), // lower half block: bottom lit = light, top dark
                other => return fail("alphabet", format!("size {}: line {} column {} is {:?}, not one of space / upper half / lower half / full block", n, li, ci, other)),
            };
            top.push(t);
            bot.push(b);
        }
        half.push(top);
        half.push(bot);
    }
    // half-row 1 = top border, half-rows 2..n+1 = matrix rows, half-row n+2 = bottom border. Half-row 0 (and a
    // possible trailing half-row n+3) lie outside the one-module border and are not constrained by the property
    // except that they exist to complete the character cells.
    for c in 0..n + 2 {
        ensure!(!half[1][c], "top_border", "size {}: top border module at column {} is dark", n, c);
        ensure!(!half[n + 2][c], "bottom_border", "size {}: bottom border module at column {} is dark", n, c);
    }
    for r in 0..n {
        let h = &half[r + 2];
        ensure!(!h[0], "left_border", "size {}: left border module at row {} is dark", n, r);
        ensure!(!h[n + 1], "right_border", "size {}: right border module at row {} is dark", n, r);
        for c in 0..n {
            if h[c + 1] != vals[r * n + c] {
                return fail(
                    "module",
                    format!(
                        "size {}: text shows module (row {}, col {}) as {} but the matrix has {} ({:?})",
                        n, r, c,
                        if h[c + 1] { "dark" } else { "light" },
                        if vals[r * n + c] { "dark" } else { "light" },
                        bc
                    ),
                );
            }
        }
    }
    Ok(())
}

/// terminal- and locale-related environments of the environment phases (None = variable removed)
fn env_phase(phase: u64) -> Vec<(&'static str, Option<&'static str>)> {
    match phase {
        1 => vec![("COLUMNS", Some("200")), ("LINES", Some("60")), ("TERM", Some("xterm-256color")), ("LANG", Some("fr_FR.ISO-8859-1"))],
        2 => vec![("COLUMNS", Some("27")), ("LINES", Some("5")), ("TERM", Some("dumb")), ("NO_COLOR", Some("1")), ("LANG", Some("en_US.UTF-8")), ("LC_ALL", Some("ja_JP.eucJP"))],
        3 => vec![("COLUMNS", None), ("LINES", None), ("LC_ALL", None), ("NO_COLOR", None), ("LANG", Some("C")), ("LC_CTYPE", Some("de_DE.ISO-8859-15@euro"))],
        _ => vec![("COLUMNS", None), ("LINES", None), ("LANG", None), ("LC_ALL", None), ("LC_CTYPE", None), ("NO_COLOR", None)],
    }
}

/// only called while no worker thread runs (between the parts of a run, or in a replay)
fn set_env_phase(phase: u64) {
    for (k, v) in env_phase(phase) {
        match v {
            Some(v) => std::env::set_var(k, v),
            None => std::env::remove_var(k),
        }
    }
}

/// Child-process entry `fqv __c16print <case.json>`: builds the case and calls `QRCode::print()` - the other entry
/// point of the text rendering - so that the parent can read what really reaches standard output.
pub fn print_main(args: &[String]) -> ! {
    let text = std::fs::read_to_string(&args[0]).unwrap_or_default();
    let v: Value = serde_json::from_str(&text).unwrap_or(Value::Null);
    let Some(bc) = BuildCase::from_json(&v) else { std::process::exit(3) };
    match bc.builder().build() {
        Ok(q) => {
            q.print();
            std::process::exit(0)
        }
        Err(_) => std::process::exit(4),
    }
}

static PRINT_SEQ: std::sync::atomic::AtomicU64 = std::sync::atomic::AtomicU64::new(0);

/// `print()` in a child process: standard output must be the text rendering of the same matrix followed by one line
/// feed (println), under whichever of the locale / terminal environments the case selects.
pub fn check_print(bc: &BuildCase, obs: &mut Obs) -> Result<(), Fail> {
    if std::env::var("FQV_IN_FUZZ").is_ok() {
        return Ok(());
    }
    let built = match do_build(bc)? {
        Ok(b) => b,
        Err(_) => return Ok(()),
    };
    let Ok(exe) = std::env::current_exe() else { return Ok(()) };
    let k = PRINT_SEQ.fetch_add(1, std::sync::atomic::Ordering::SeqCst);
    let path = std::env::temp_dir().join(format!("fqv-print-{}-{}.json", std::process::id(), k));
    if std::fs::write(&path, bc.to_json().to_string()).is_err() {
        return Ok(());
    }
    let phase = bc.hash() % 4;
    let mut cmd = std::process::Command::new(exe);
    cmd.arg("__c16print").arg(&path);
    for (key, val) in env_phase(phase) {
        match val {
            Some(v) => cmd.env(key, v),
            None => cmd.env_remove(key),
        };
    }
    let out = cmd.output();
    let _ = std::fs::remove_file(&path);
    let Ok(out) = out else { return Ok(()) };
    if out.status.code() != Some(0) {
        return fail("print_failed", format!("child process calling print() ended with {:?}: {} ({:?})", out.status.code(), String::from_utf8_lossy(&out.stderr).chars().take(300).collect::<String>(), bc));
    }
    let text = String::from_utf8(out.stdout).map_err(|_| Fail { sig: "print_not_utf8".into(), msg: format!("print() wrote bytes that are not UTF-8 ({:?})", bc) })?;
    let Some(body) = text.strip_suffix('\n') else {
        return fail("print_no_newline", format!("print() output does not end with a line feed ({:?})", bc));
    };
    check_text(body, &built.values(), built.size(), bc).map_err(|f| Fail { sig: format!("print:{}", f.sig), msg: format!("print() (environment phase {}): {}", phase, f.msg) })?;
    obs.label(&format!("print_environment_phase_{}", phase));
    obs.count("child_processes", 1);
    obs.nontrivial(bc.hash() ^ 0x5052);
    Ok(())
}

pub fn replay(_e: &Engine, case: &Value, obs: &mut Obs) -> Result<(), Fail> {
    let b = BuildCase::from_json(case).ok_or_else(|| Fail { sig: "bad_replay".into(), msg: "cannot parse case".into() })?;
    let phase = case.get("env_phase").and_then(|x| x.as_u64()).unwrap_or(0);
    if phase != 0 {
        set_env_phase(phase);
    }
    let r = if case.get("print").is_some() { check_print(&b, obs) } else { check(&b, obs) };
    if phase != 0 {
        set_env_phase(0);
    }
    r
}

pub fn run(e: &'static Engine) {
    e.set_rule(
        "Enumerated: all 40 sizes x 4 levels (thorough: x 8 masks) with generated payload / mode / mask. Oracle: split to_str() on \
         newline: (size+1)/2+1 lines of exactly size+2 characters from {space, upper half, lower half, full block}; each character \
         is read as (top, bottom) darkness (space = both dark, full block = both light); half-row 1 is the all-light top border, \
         half-row r+2 columns 1..=size reproduce matrix row r with light modules in columns 0 and size+1, half-row size+2 is the \
         all-light bottom border. Non-trivial: every case (size dimension exhaustive); distinct by case hash.",
    );
    e.extend_rule("environment phases with locale variables (phase stored in the replay); part print_entry_point (QRCode::print in a child process under one of the phases' environments); edit 1..5 modules (data field / qr[r][c]) and render the same object and a clone again; predecessor renders on the thread (failing / other symbol); extreme textures.");
    e.assume("half-row 0 (the upper half of the first text line) lies outside the one-module border and is not constrained");
    crate::engine::run_regress(e, &|c, o| replay(e, c, o));
    let per: u32 = e.tier.pick(2, 12);
    let mut jobs: Vec<Job> = Vec::new();
    for v in 1..=40usize {
        jobs.push(Box::new(move |jc: &mut JobCtx| {
            for &level in LEVELS.iter() {
                let strat = (0usize..3, any::<bool>(), any::<bool>(), prop_oneof![Just(None), (0u8..8).prop_map(Some)]).prop_flat_map(move |(mi, fm, fv, mask)| {
                    let cell = Cell { version: v, level, mode: Mode::from_index(mi) };
                    case_in_cell(cell, Force { mode: fm, level: true, version: fv }, mask)
                });
                jc.run_prop(level as u64 + 1, &strat, per, |(c, _)| c.to_json(), |(c, _), o| check(c, o));
            }
        }));
    }
    e.par(jobs);
    // generated: random cells, and steered matrices (whole rows/columns of one value with isolated exceptions at
    // word-size boundaries, run-length patterns, uniform rectangles), so that a renderer that packs, chunks or
    // run-length-encodes rows is driven through its uniform-chunk paths
    // ambient environment: the rendering is a function of the matrix only. The generated part below runs in four
    // phases under different terminal- and locale-related environment variables (set between phases, while no worker thread runs)
    for phase in 0u64..4 {
        set_env_phase(phase);
        let per: u32 = e.tier.pick(1600, 16000);
        let mut jobs: Vec<Job> = Vec::new();
        for _ in 0..16 {
            jobs.push(Box::new(move |jc: &mut JobCtx| {
                let strat = crate::gens::any_case();
                jc.run_prop((8 + phase) << 20, &strat, per / 16, move |(c, _, _)| { let mut j = c.to_json(); j["env_phase"] = json!(phase); j }, |(c, _, _), o| {
                    o.label(&format!("part:environment_phase_{}", phase));
                    check(c, o)
                });
            }));
        }
        e.par(jobs);
    }
    set_env_phase(0);
    let total: u32 = e.tier.pick(32000, 320000);
    let shards = e.tier.pick(32u32, 96);
    let mut jobs: Vec<Job> = Vec::new();
    for _ in 0..shards {
        jobs.push(Box::new(move |jc: &mut JobCtx| {
            let strat = crate::gens::steered_case(1, 40, true);
            jc.run_prop(2 << 20, &strat, total / shards * 3 / 4, |(c, _)| c.to_json(), |(c, _), o| {
                o.label("part:steered");
                check(c, o)
            });
            let strat = crate::gens::any_case();
            jc.run_prop(3 << 20, &strat, total / shards / 4, |(c, _, _)| c.to_json(), |(c, _, _), o| {
                o.label("part:generated");
                check(c, o)
            });
        }));
    }
    e.par(jobs);
    // the other entry point of the text rendering: QRCode::print(), in a child process whose standard output is read
    let total: u32 = e.tier.pick(96, 1920);
    let mut jobs: Vec<Job> = Vec::new();
    for _ in 0..16 {
        jobs.push(Box::new(move |jc: &mut JobCtx| {
            let strat = prop_oneof![3 => crate::gens::any_case().prop_map(|(c, _, _)| c), 1 => crate::gens::steered_case(1, 40, true).prop_map(|(c, _)| c)];
            jc.run_prop(21 << 20, &strat, total / 16, |c| { let mut j = c.to_json(); j["print"] = json!(true); j }, |c, o| {
                o.label("part:print_entry_point");
                check_print(c, o)
            });
        }));
    }
    e.par(jobs);
    super::common::extreme_parts(e, |c, _fam, o| check(c, o));
    e.set_exhaustive(true, "all 40 symbol sizes (x 4 levels); payloads and masks are sampled");
}
