//! C04 — format/version information and reported parameters tell the truth.

use super::common::{do_build, label_case};
use crate::engine::{Engine, Fail, Job, JobCtx, Obs};
use crate::ensure;
use crate::fq::{level_of, mask_no, mode_of, version_no, BuildCase, Opts};
use crate::gens::{any_case, payload, Cell};
use proptest::prelude::*;
use refmodel::codec::{deinterleave, parse_segments};
use refmodel::geom::{format_word, geometry, mask_cond, version_word};
use refmodel::tables::*;
use serde_json::{json, Value};

pub fn check(bc: &BuildCase, fam: &str, obs: &mut Obs) -> Result<(), Fail> {
    let built = match do_build(bc)? {
        Ok(b) => b,
        Err(e) => {
            obs.label(&format!("no_symbol:{:?}", e));
            return Ok(());
        }
    };
    label_case(obs, bc, fam, Some(&built));
    let (r_level, r_mask, r_version, r_mode) = verify(&built.qr, bc, "", obs)?;
    // Copies are QR codes too (`Clone` is part of the public type): `clone()`, `clone_from` onto a value that held a
    // version-40 symbol, and `clone_from` onto a value that held a small symbol whose level, mask and mode all differ
    // from the ones under test. Every copy must report what ITS symbol encodes.
    for (what, q) in crate::fq::copies(&built.qr) {
        let cell = std::cell::RefCell::new(crate::engine::LocalStats::default());
        let mut sub = Obs::new(&cell);
        let r = verify(&q, bc, what, &mut sub).map_err(|mut f| {
            f.sig = format!("copy:{}", f.sig);
            f
        })?;
        ensure!(
            r == (r_level, r_mask, r_version, r_mode) && q.size == built.qr.size,
            "copy:fields_differ",
            "{} reports {:?} size {}, the original {:?} size {} ({:?})",
            what, r, q.size, (r_level, r_mask, r_version, r_mode), built.qr.size, bc
        );
    }
    obs.label("copies_checked");
    let n = built.qr.size;
    let forced: Vec<&str> = [
        bc.opts.level.map(|_| "level"),
        bc.opts.mask.map(|_| "mask"),
        bc.opts.version.map(|_| "version"),
        bc.opts.mode.map(|_| "mode"),
    ]
    .iter()
    .flatten()
    .copied()
    .collect();
    let key = format!("{}|{}|{}|{}", r_level.name(), r_mask, r_version, forced.join("+"));
    obs.nontrivial(crate::engine::hash_bytes(key.as_bytes()));
    obs.sample(&format!("forced:{}", forced.join("+")), || {
        let mut s = bc.to_sample();
        s["reported"] = json!({"level": r_level.name(), "mask": r_mask, "version": r_version, "mode": r_mode.name(), "size": n});
        s
    });
    Ok(())
}

type Reported = (Level, u8, usize, Mode);

/// Everything the property says about ONE QRCode value: fields present, equal to the forced options, and equal to what
/// the symbol physically encodes (both format copies, both version copies, applied mask, mode indicator).
fn verify(qr: &fast_qr::QRCode, bc: &BuildCase, what: &str, obs: &mut Obs) -> Result<Reported, Fail> {
    let n = qr.size;
    let bc = &Tagged(bc, what);
    // reported fields are all present
    ensure!(
        qr.ecl.is_some() && qr.mask.is_some() && qr.version.is_some() && qr.mode.is_some(),
        "field_none",
        "a reported field is None: ecl {:?} mask {:?} version {:?} mode {:?} ({:?})",
        qr.ecl, qr.mask, qr.version, qr.mode, bc
    );
    let r_level = level_of(qr.ecl.unwrap());
    let r_mask = mask_no(qr.mask.unwrap());
    let r_version = version_no(qr.version.unwrap());
    let r_mode = mode_of(qr.mode.unwrap());
    // options forced by the caller / defaults
    if let Some(l) = bc.opts.level {
        ensure!(r_level == l, "forced_level", "level {} forced but {} reported ({:?})", l.name(), r_level.name(), bc);
    } else {
        ensure!(r_level == Level::Q, "default_level", "no level given: must default to Q, reported {} ({:?})", r_level.name(), bc);
    }
    if let Some(m) = bc.opts.mask {
        ensure!(r_mask == m, "forced_mask", "mask {} forced but {} reported ({:?})", m, r_mask, bc);
    }
    if let Some(v) = bc.opts.version {
        ensure!(r_version == v, "forced_version", "version {} forced but {} reported ({:?})", v, r_version, bc);
    }
    if let Some(m) = bc.opts.mode {
        ensure!(r_mode == m, "forced_mode", "mode {} forced but {} reported ({:?})", m.name(), r_mode.name(), bc);
    }
    // size <-> version
    ensure!(n == 17 + 4 * r_version, "size_field", "reported size {} but reported version {} needs {} ({:?})", n, r_version, 17 + 4 * r_version, bc);
    let vals: Vec<bool> = qr.data[..(n * n).min(qr.data.len())].iter().map(|m| m.value()).collect();
    let g = geometry(r_version);
    // both copies of the format information, bit by bit at the ISO positions
    let want = format_word(r_level.format_bits(), r_mask);
    for copy in 0..2 {
        let mut w = 0u16;
        for i in 0..15 {
            let (r, c) = g.format_pos[copy][i];
            if vals[r * n + c] {
                w |= 1 << i;
            }
        }
        ensure!(
            w == want,
            "format_info",
            "format information copy {} reads {:015b}; BCH(15,5)({} , mask {}) xor 101010000010010 = {:015b} (v{}; {:?})",
            copy + 1, w, r_level.name(), r_mask, want, r_version, bc
        );
    }
    if r_version >= 7 {
        let want = version_word(r_version);
        for copy in 0..2 {
            let mut w = 0u32;
            for i in 0..18 {
                let (r, c) = g.version_pos[copy][i];
                if vals[r * n + c] {
                    w |= 1 << i;
                }
            }
            ensure!(
                w == want,
                "version_info",
                "version information copy {} reads {:018b}; BCH(18,6)({}) = {:018b} ({:?})",
                copy + 1, w, r_version, want, bc
            );
        }
        obs.label("has_version_info");
    }
    // Physical content: unmask the encoding region with mask k, read the codewords, de-interleave with the
    // reported level and parse the first segment.
    let parse_with = |k: u8| -> Option<refmodel::codec::ParsedData> {
        let total = total_codewords(r_version);
        let mut cw = vec![0u8; total];
        for (i, &(r, c)) in g.order.iter().enumerate() {
            if i / 8 >= total {
                break;
            }
            if vals[r * n + c] ^ mask_cond(k, r, c) {
                cw[i / 8] |= 1 << (7 - i % 8);
            }
        }
        let blocks = deinterleave(&cw, r_version, r_level);
        let data: Vec<u8> = blocks.iter().flat_map(|(d, _)| d.iter().copied()).collect();
        parse_segments(&data, r_version).ok()
    };
    let is_input = |p: &Option<refmodel::codec::ParsedData>| p.as_ref().map(|p| p.segments.len() == 1 && p.segments[0].bytes == bc.input).unwrap_or(false);
    let own = parse_with(r_mask);
    if !is_input(&own) {
        // the mask named in the format information must be the pattern physically applied
        for k in 0..8u8 {
            if k != r_mask && is_input(&parse_with(k)) {
                return crate::engine::fail(
                    "applied_mask",
                    format!(
                        "format information and QRCode.mask name mask {} but the encoding region is masked with pattern {} (v{} {}; {:?})",
                        r_mask, k, r_version, r_level.name(), bc
                    ),
                );
            }
        }
        obs.label("content_unverifiable_under_named_mask");
    }
    // The first four bits of the data stream, read under the named mask, are the mode indicator of the reported mode -
    // whatever follows, and whether or not the reference parser understands the rest (an ECI or structured-append
    // header in front of the segment would make the symbol start with another indicator than the one reported).
    {
        let mut first = 0u8;
        for (i, &(r, c)) in g.order.iter().take(4).enumerate() {
            if vals[r * n + c] ^ mask_cond(r_mask, r, c) {
                first |= 1 << (3 - i);
            }
        }
        let want = match r_mode {
            Mode::Numeric => 0b0001,
            Mode::Alphanumeric => 0b0010,
            Mode::Byte => 0b0100,
        };
        ensure!(
            first == want,
            "mode_indicator",
            "reported mode {} (indicator {:04b}) but the data stream of the symbol starts with {:04b} (v{} {} mask {}; {:?})",
            r_mode.name(), want, first, r_version, r_level.name(), r_mask, bc
        );
    }
    // the mode indicator physically present equals the reported mode (only when the data parse at all)
    if let Some(p) = &own {
        // the FIRST mode indicator of the data stream is what a reader sees as the symbol's mode; a symbol that starts
        // with another indicator (also one that goes on with further segments) does not carry the reported mode
        // ... and every symbol starts with one, also the symbol of the empty input (indicator + count 0)
        ensure!(
            !p.segments.is_empty(),
            "no_mode_indicator",
            "reported mode {} but the data stream starts with the terminator: no mode indicator at all (v{} {} mask {}; {:?})",
            r_mode.name(), r_version, r_level.name(), r_mask, bc
        );
        {
            ensure!(
                p.segments[0].mode == r_mode,
                "mode_field",
                "reported mode {} but the symbol's mode indicator decodes as {} (v{} {} mask {}; {:?})",
                r_mode.name(), p.segments[0].mode.name(), r_version, r_level.name(), r_mask, bc
            );
        }
    }
    Ok((r_level, r_mask, r_version, r_mode))
}

/// the case together with the name of the copy under test, for messages
struct Tagged<'a>(&'a BuildCase, &'a str);
impl std::fmt::Debug for Tagged<'_> {
    fn fmt(&self, f: &mut std::fmt::Formatter<'_>) -> std::fmt::Result {
        if self.1.is_empty() {
            write!(f, "{:?}", self.0)
        } else {
            write!(f, "{} of {:?}", self.1, self.0)
        }
    }
}
impl std::ops::Deref for Tagged<'_> {
    type Target = BuildCase;
    fn deref(&self) -> &BuildCase {
        self.0
    }
}

/// The JS/WASM entry points build symbols too: the level physically encoded by `qr(content)` and by
/// `qr_svg(content, options)` must be the level given through the options, and Q when none is given - whatever the
/// other options (shape, margin, embedded image, forced version) are. The matrix is recovered from the exported bytes /
/// from the drawn sub-paths of the SVG and its format information is decoded with the reference BCH code.
#[cfg(not(fast_qr_verif))]
pub fn check_wasm(_c: &WasmCase, obs: &mut Obs) -> Result<(), Fail> {
    // the pass over fast_qr built WITHOUT the verification flag has no host-compiled wasm module
    obs.label("wasm_entry_points:not_in_the_plain_build");
    Ok(())
}

#[cfg(fast_qr_verif)]
pub fn check_wasm(c: &WasmCase, obs: &mut Obs) -> Result<(), Fail> {
    use fast_qr::verif_wasm_host as wasm;
    let level_of_matrix = |vals: &[bool], n: usize| -> Option<(Level, u8)> {
        let v = version_from_size(n)?;
        let g = geometry(v);
        let mut w = 0u16;
        for i in 0..15 {
            let (r, cc) = g.format_pos[0][i];
            if vals[r * n + cc] {
                w |= 1 << i;
            }
        }
        refmodel::geom::format_decode_strict(w).map(|(lb, m)| (Level::from_format_bits(lb), m))
    };
    let want = c.level.unwrap_or(Level::Q);
    // qr(content): always the default level
    let bytes = crate::engine::catch(|| wasm::qr(&c.content)).map_err(|p| Fail { sig: crate::engine::panic_sig(&p), msg: format!("wasm qr() panicked: {}", p) })?;
    if !bytes.is_empty() {
        let n = (bytes.len() as f64).sqrt() as usize;
        if n * n == bytes.len() {
            let vals: Vec<bool> = bytes.iter().map(|&b| b == 1).collect();
            if let Some((l, _)) = level_of_matrix(&vals, n) {
                ensure!(l == Level::Q, "wasm_default_level", "wasm qr({:?}) encodes level {} - no level can be given there, so it must be Q", c.content, l.name());
            }
        }
    }
    let svg = crate::engine::catch(|| {
        let mut o = wasm::SvgOptions::new();
        if let Some(m) = c.margin {
            o = o.margin(m);
        }
        if let Some(s) = c.shape {
            o = o.shape(crate::svgcase::SHAPES[s]);
        }
        if let Some(i) = &c.image {
            o = o.image(i.clone());
        }
        if let Some(l) = c.level {
            o = o.ecl(crate::fq::f_level(l));
        }
        if let Some(v) = c.version {
            o = o.version(crate::fq::f_version(v));
        }
        wasm::qr_svg(&c.content, o)
    })
    .map_err(|p| Fail { sig: crate::engine::panic_sig(&p), msg: format!("wasm qr_svg() panicked: {}", p) })?;
    if svg.is_empty() {
        obs.label("wasm:not_encodable");
        return Ok(());
    }
    let doc = roxmltree::Document::parse(&svg).map_err(|e| Fail { sig: "wasm_svg_ill_formed".into(), msg: format!("qr_svg output is not well-formed: {}", e) })?;
    let root = doc.root_element();
    let side: usize = root.attribute("viewBox").and_then(|v| v.split_whitespace().nth(2).and_then(|x| x.parse().ok())).ok_or_else(|| Fail { sig: "wasm_viewbox".into(), msg: "no viewBox".into() })?;
    let margin = c.margin.unwrap_or(4);
    ensure!(side > 2 * margin, "wasm_viewbox", "viewBox side {} with margin {}", side, margin);
    let n = side - 2 * margin;
    let mut vals = vec![false; n * n];
    if let Some(p) = root.children().find(|x| x.is_element() && x.tag_name().name() == "path") {
        let subs = crate::svgpath::parse(p.attribute("d").unwrap_or("")).map_err(|e| Fail { sig: "wasm_path".into(), msg: e })?;
        for sp in subs {
            let (cx, cy) = sp.centre();
            let (x, y) = (cx.floor() as i64 - margin as i64, cy.floor() as i64 - margin as i64);
            if x >= 0 && y >= 0 && (x as usize) < n && (y as usize) < n {
                vals[y as usize * n + x as usize] = true;
            }
        }
    }
    match level_of_matrix(&vals, n) {
        Some((l, _)) => {
            ensure!(
                l == want,
                if c.level.is_some() { "wasm_level" } else { "wasm_default_level" },
                "wasm qr_svg: the symbol encodes level {} but {} ({:?})",
                l.name(),
                match c.level { Some(x) => format!("level {} was set on the options", x.name()), None => "no level was set, so it must be Q".to_string() },
                c
            );
        }
        None => return crate::engine::fail("wasm_format_unreadable", format!("format information of the symbol drawn by qr_svg is not a BCH codeword ({:?})", c)),
    }
    obs.label(&format!("wasm:level_{}", if c.level.is_some() { "set" } else { "default" }));
    obs.label(&format!("wasm:image_{}", c.image.is_some()));
    obs.nontrivial(crate::engine::hash_bytes(format!("{:?}", c).as_bytes()));
    Ok(())
}

#[derive(Clone, Debug)]
pub struct WasmCase {
    pub content: String,
    pub level: Option<Level>,
    pub version: Option<usize>,
    pub margin: Option<usize>,
    pub shape: Option<usize>,
    pub image: Option<String>,
}

fn wasm_json(c: &WasmCase) -> Value {
    json!({"wasm": true, "content": c.content, "level": c.level.map(|l| l.name()), "version": c.version, "margin": c.margin, "shape": c.shape, "image": c.image})
}

fn wasm_from(v: &Value) -> Option<WasmCase> {
    Some(WasmCase {
        content: v.get("content")?.as_str()?.to_string(),
        level: match v.get("level").and_then(|x| x.as_str()) {
            Some("L") => Some(Level::L),
            Some("M") => Some(Level::M),
            Some("Q") => Some(Level::Q),
            Some("H") => Some(Level::H),
            _ => None,
        },
        version: v.get("version").and_then(|x| x.as_u64()).map(|x| x as usize),
        margin: v.get("margin").and_then(|x| x.as_u64()).map(|x| x as usize),
        shape: v.get("shape").and_then(|x| x.as_u64()).map(|x| x as usize),
        image: v.get("image").and_then(|x| x.as_str()).map(|x| x.to_string()),
    })
}

pub fn replay(_e: &Engine, case: &Value, obs: &mut Obs) -> Result<(), Fail> {
    if case.get("wasm").is_some() {
        let c = wasm_from(case).ok_or_else(|| Fail { sig: "bad_replay".into(), msg: "cannot parse case".into() })?;
        return check_wasm(&c, obs);
    }
    let b = BuildCase::from_json(case).ok_or_else(|| Fail { sig: "bad_replay".into(), msg: "cannot parse case".into() })?;
    check(&b, "replay", obs)
}

pub fn run(e: &'static Engine) {
    e.set_rule(
        "Enumerated: all 4 levels x 8 masks x 40 versions forced (1280 cells, exhaustive) with a generated payload that fits. \
         Generated: random cells where each of level / mask / version / mode is independently forced or automatic. Oracle: both \
         format copies read at the ISO Figure 25 positions equal BCH(15,5)(level, mask) xor 0x5412 computed by polynomial division; \
         for v>=7 both version blocks equal BCH(18,6)(v); reported ecl/mask/version/mode/size are Some and equal the physically \
         decoded values, every forced option, and level Q when no level was given. Non-trivial: distinct (level, mask, version, \
         forced-set) tuples.",
    );
    e.extend_rule("all statements are also checked on the Clone copies; the first mode indicator must exist (also for the empty input) and be the reported mode whatever follows; wasm entry points; extreme textures.");
    e.assume("BCH generator polynomials 0x537 / 0x1F25 and the mask 0x5412 as in ISO/IEC 18004 Annex C/D (checked against the Annex examples in refmodel tests)");
    crate::engine::run_regress(e, &|c, o| replay(e, c, o));
    let mut jobs: Vec<Job> = Vec::new();
    for v in 1..=40usize {
        jobs.push(Box::new(move |jc: &mut JobCtx| {
            let mut salt = 0;
            for &level in LEVELS.iter() {
                for mask in 0..8u8 {
                    salt += 1;
                    let strat = (0usize..3, any::<bool>(), any::<u16>()).prop_flat_map(move |(mi, fm, lsel)| {
                        let mode = Mode::from_index(mi);
                        let cell = Cell { version: v, level, mode };
                        let min = if !fm && mode != Mode::Numeric { 1 } else { 0 };
                        let len = (min + crate::gens::pick(lsel, cell.cap() + 1 - min)).min(cell.cap().min(200).max(min));
                        payload(mode, len, !fm).prop_map(move |(input, fam)| {
                            (BuildCase::new(input, Opts { mode: if fm { Some(mode) } else { None }, level: Some(level), version: Some(v), mask: Some(mask) }), fam)
                        })
                    });
                    jc.run_prop(salt, &strat, 1, |(c, _)| c.to_json(), |(c, fam), o| {
                        o.label("part:enumerated");
                        check(c, fam, o)
                    });
                }
            }
        }));
    }
    e.par(jobs);
    let total: u32 = e.tier.pick(4800, 60000);
    let shards = e.tier.pick(16u32, 64);
    let mut jobs: Vec<Job> = Vec::new();
    for _ in 0..shards {
        jobs.push(Box::new(move |jc: &mut JobCtx| {
            let strat = any_case();
            jc.run_prop(1 << 20, &strat, total / shards, |(c, _, _)| c.to_json(), |(c, fam, _), o| {
                o.label("part:generated");
                check(c, fam, o)
            });
        }));
    }
    e.par(jobs);
    // automatic-mask sweep where exact penalty ties occur (versions 1..14): "mask reported / named in the format
    // information" vs "mask physically applied" can only come apart when the selection is automatic
    let total: u32 = e.tier.pick(64000, 480000);
    let shards = e.tier.pick(32u32, 96);
    let mut jobs: Vec<Job> = Vec::new();
    for _ in 0..shards {
        jobs.push(Box::new(move |jc: &mut JobCtx| {
            let strat = crate::gens::auto_mask_small();
            jc.run_prop(2 << 20, &strat, total / shards, |(c, _, _)| c.to_json(), |(c, fam, _), o| {
                o.label("part:auto_mask_small");
                check(c, fam, o)
            });
        }));
    }
    e.par(jobs);
    // the same truthfulness through the JS/WASM entry points (host-compiled through the guarded hook)
    let total: u32 = e.tier.pick(3200, 48000);
    let mut jobs: Vec<Job> = Vec::new();
    for _ in 0..shards {
        jobs.push(Box::new(move |jc: &mut JobCtx| {
            let strat = (
                prop_oneof!["[ -~]{0,40}", "[0-9]{0,60}", "[0-9A-Z $%*+./:-]{0,50}", crate::gens::realistic_payload().prop_map(|b| String::from_utf8_lossy(&b).into_owned())],
                prop_oneof![2 => Just(None), 3 => (0usize..4).prop_map(|l| Some(Level::from_index(l)))],
                prop_oneof![3 => Just(None), 1 => (1usize..=12).prop_map(Some)],
                prop_oneof![Just(None), (0usize..=8).prop_map(Some)],
                prop_oneof![Just(None), (0usize..6).prop_map(Some)],
                prop_oneof![1 => Just(None), 1 => Just(Some("logo.png".to_string())), 1 => Just(Some("https://example.com/i.png".to_string()))],
            )
                .prop_map(|(content, level, version, margin, shape, image)| WasmCase { content, level, version, margin, shape, image });
            jc.run_prop(3 << 20, &strat, total / shards, wasm_json, |c, o| {
                o.label("part:wasm_entry_points");
                check_wasm(c, o)
            });
        }));
    }
    e.par(jobs);
    e.put("cells_total", json!(1280));
    super::common::extreme_parts(e, check);
    e.set_exhaustive(true, "the 4 x 8 x 40 forced (level, mask, version) cells; payloads and the forced/automatic combinations are sampled");
}
