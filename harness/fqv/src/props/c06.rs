//! C06 — data codewords follow the ISO bit-stream encoding bit for bit.

use super::common::{do_build, label_case};
use crate::engine::{fail, Engine, Fail, Job, JobCtx, Obs};
use crate::fq::BuildCase;
use crate::gens::{case_in_cell, payload, Cell, Force};
use proptest::prelude::*;
use refmodel::codec::{data_codewords_for, decode_plain};
use refmodel::tables::*;
use serde_json::{json, Value};

pub fn check(bc: &BuildCase, fam: &str, obs: &mut Obs) -> Result<(), Fail> {
    let built = match do_build(bc)? {
        Ok(b) => b,
        Err(e) => {
            obs.label(&format!("no_symbol:{:?}", e));
            return Ok(());
        }
    };
    label_case(obs, bc, fam, Some(&built));
    let n = built.size();
    let vals = built.values();
    let v = version_from_size(n).ok_or_else(|| Fail { sig: "size".into(), msg: format!("bad size {}", n) })?;
    let mode = bc.effective_mode();
    let level = bc.effective_level();
    let (want, info) = match data_codewords_for(mode, &bc.input, v, level) {
        Ok(x) => x,
        Err(e) => {
            return fail("data_overflow", format!("a symbol of version {} was returned but the ISO bit stream does not fit: {} ({:?})", v, e, bc));
        }
    };
    let d = decode_plain(&vals, n);
    // de-interleave with the level in effect (the caller's), read with the mask in the format information
    let got: Vec<u8> = match &d {
        Ok(d) if d.read.level == level => d.data.clone(),
        Ok(d) => {
            let blocks = refmodel::codec::deinterleave(&d.read.codewords, v, level);
            blocks.iter().flat_map(|(x, _)| x.iter().copied()).collect()
        }
        Err(_) => {
            // segment parse failed: still compare the raw data codewords
            let ro = refmodel::codec::read_out(&vals, n).map_err(|e| Fail { sig: "unreadable".into(), msg: format!("read-out failed: {} ({:?})", e, bc) })?;
            let blocks = refmodel::codec::deinterleave(&ro.codewords, v, level);
            blocks.iter().flat_map(|(x, _)| x.iter().copied()).collect()
        }
    };
    if got != want {
        let first = got.iter().zip(want.iter()).position(|(a, b)| a != b).unwrap_or(0);
        let seg_bytes = (info.segment_bits + 7) / 8;
        let part = if first * 8 < 4 {
            "mode_indicator"
        } else if first * 8 < 4 + cci_bits(v, mode) {
            "character_count"
        } else if first < seg_bytes.saturating_sub(1) {
            "payload_bits"
        } else if first < seg_bytes + 1 {
            "segment_end_or_terminator"
        } else {
            "pad_codewords"
        };
        let lo = first.saturating_sub(2);
        let hi = (first + 4).min(want.len());
        return fail(
            &format!("bitstream:{}", part),
            format!(
                "v{} {} {} len {}: data codeword {} of {} is {:#04x}, ISO encoding gives {:#04x} (got {:02x?} want {:02x?} around it; segment {} bits, terminator {}, pads {}; {:?})",
                v, level.name(), mode.name(), bc.input.len(), first, want.len(), got[first], want[first], &got[lo..hi], &want[lo..hi],
                info.segment_bits, info.terminator_bits, info.pad_codewords, bc
            ),
        );
    }
    let class = if v <= 9 { 0 } else if v <= 26 { 1 } else { 2 };
    obs.label(&format!("cci_class:{}", class));
    obs.label(&format!("spare_bits:{}", if info.spare_bits_before_terminator <= 12 { info.spare_bits_before_terminator.to_string() } else { ">12".into() }));
    obs.label(&format!("terminator_bits:{}", info.terminator_bits));
    if info.pad_codewords > 0 {
        obs.label(if info.pad_codewords % 2 == 1 { "pads:odd" } else { "pads:even" });
    } else {
        obs.label("pads:none");
    }
    match mode {
        Mode::Numeric => obs.label(&format!("len_mod3:{}", bc.input.len() % 3)),
        Mode::Alphanumeric => obs.label(&format!("len_mod2:{}", bc.input.len() % 2)),
        Mode::Byte => {}
    }
    if info.spare_bits_before_terminator <= 12 || info.pad_codewords >= 1 || class != 0 {
        obs.nontrivial(bc.hash());
    }
    obs.sample(&format!("{}|term{}|{}", mode.name(), info.terminator_bits, if info.pad_codewords > 0 { "padded" } else { "full" }), || {
        let mut s = bc.to_sample();
        s["version"] = json!(v);
        s["segment_bits"] = json!(info.segment_bits);
        s["spare_bits"] = json!(info.spare_bits_before_terminator);
        s["pad_codewords"] = json!(info.pad_codewords);
        s
    });
    Ok(())
}

pub fn replay(_e: &Engine, case: &Value, obs: &mut Obs) -> Result<(), Fail> {
    let b = BuildCase::from_json(case).ok_or_else(|| Fail { sig: "bad_replay".into(), msg: "cannot parse case".into() })?;
    check(&b, "replay", obs)
}

pub fn run(e: &'static Engine) {
    e.set_rule(
        "Enumerated: all 480 (version, level, mode) cells; per cell the lengths cap, cap-1, ..., cap-8 (every residue mod 3 / mod 2 \
         and every reachable count of 0..12 spare bits), lo, lo+1, and with a forced version 0, 1, 2, 3 and generated lengths; \
         payloads from the class families (leading zeros, value-44 pairs, 0x00/0xFF, pad look-alikes). Oracle: the data codewords \
         recovered by the reference read-out and de-interleaving must equal byte for byte all data_codewords(v, level) of the \
         reference ISO 7.4 encoder (mode nibble, count of the reference width, packed groups, terminator min(4, remaining), zero \
         bits to the byte boundary, EC 11 EC 11 ... to capacity). Non-trivial: <= 12 spare bits, or >= 1 pad codeword, or count-width \
         class other than the first; distinct by case hash.",
    );
    e.assume("reference encoder in refmodel::codec (written from ISO 7.4; produces matrices identical to the qrcode crate's in the self-test)");
    crate::engine::run_regress(e, &|c, o| replay(e, c, o));
    let gen_per_cell: u32 = e.tier.pick(2, 30);
    let mut jobs: Vec<Job> = Vec::new();
    for v in 1..=40usize {
        jobs.push(Box::new(move |jc: &mut JobCtx| {
            let mut salt = 0;
            for &level in LEVELS.iter() {
                for &mode in MODES.iter() {
                    let cell = Cell { version: v, level, mode };
                    let cap = cell.cap();
                    let lo = cell.lo();
                    // boundary lengths with automatic version (must stay inside [lo, cap])
                    let mut lens: Vec<(usize, bool)> = Vec::new();
                    for k in 0..=8usize {
                        if cap >= k && cap - k >= lo {
                            lens.push((cap - k, false));
                        }
                    }
                    lens.push((lo, false));
                    lens.push(((lo + 1).min(cap), false));
                    // forced version: short payloads (many pad codewords), empty
                    for l in [0usize, 1, 2, 3, 4, 5] {
                        if l <= cap {
                            lens.push((l, true));
                        }
                    }
                    let quick = jc.engine.tier == crate::engine::Tier::Quick;
                    for (idx, (len, fv)) in lens.into_iter().enumerate() {
                        // quick: thin out deterministically but keep cap..cap-3, lo, 0 and 1 in every cell
                        if quick && !(idx <= 3 || idx == 9 || idx == 11 || idx == 12 || (idx + v) % 3 == 0) {
                            continue;
                        }
                        salt += 1;
                        let force_mode = (salt + v as u64) % 2 == 0 || (len == 0 && mode != Mode::Numeric);
                        let mask = Some(((salt as usize + v) % 8) as u8);
                        let strat = payload(mode, len, !force_mode).prop_map(move |(input, fam)| {
                            (
                                BuildCase::new(
                                    input,
                                    crate::fq::Opts { mode: if force_mode { Some(mode) } else { None }, level: Some(level), version: if fv { Some(v) } else { None }, mask },
                                ),
                                fam,
                            )
                        });
                        jc.run_prop(salt, &strat, 1, |(c, _)| c.to_json(), |(c, fam), o| {
                            o.label("part:enumerated_lengths");
                            check(c, fam, o)
                        });
                    }
                    // generated lengths in the cell
                    salt += 1;
                    let strat = (any::<bool>(), any::<bool>(), 0u8..8).prop_flat_map(move |(fm, fv, mask)| case_in_cell(cell, Force { mode: fm, level: true, version: fv }, Some(mask)));
                    jc.run_prop(salt, &strat, gen_per_cell, |(c, _)| c.to_json(), |(c, fam), o| {
                        o.label("part:generated_in_cell");
                        check(c, fam, o)
                    });
                }
            }
        }));
    }
    e.par(jobs);
    // well-formed UTF-8 text (accented Latin, Greek, Cyrillic, CJK, emoji) whose BYTE length lies just above the
    // capacity of the previous version, automatic version: the character count is smaller than the byte count, and the
    // symbol must still carry every byte of the input (count = number of bytes) in the version the bytes need
    let total: u32 = e.tier.pick(9600, 96000);
    let shards = e.tier.pick(16u32, 64);
    let mut jobs: Vec<Job> = Vec::new();
    for _ in 0..shards {
        jobs.push(Box::new(move |jc: &mut JobCtx| {
            let strat = (1usize..=40, 0usize..4, 0usize..10, any::<bool>(), any::<bool>(), prop_oneof![Just(None), (0u8..8).prop_map(Some)], any::<u16>()).prop_flat_map(|(v0, li, k, fm, fl, mask, sel)| {
                // small versions more often
                let v = if sel % 3 == 0 { v0 } else { 1 + v0 % 9 };
                let level = Level::from_index(li);
                let cell = Cell { version: v, level, mode: Mode::Byte };
                let len = (cell.lo() + k).min(cell.cap()).max(1);
                crate::gens::utf8_text(len).prop_map(move |input| {
                    let input = if classify(&input) == Mode::Byte { input } else { let mut i = input; i[0] = b'a'; i };
                    BuildCase::new(input, crate::fq::Opts { mode: if fm { Some(Mode::Byte) } else { None }, level: if fl || level != Level::Q { Some(level) } else { None }, version: None, mask }).with_warm_sel(sel)
                })
            });
            jc.run_prop(77 << 20, &strat, total / shards, |c| c.to_json(), |c, o| {
                o.label("part:utf8_text_at_version_borders");
                check(c, "byte_utf8_text", o)
            });
        }));
    }
    e.par(jobs);
    super::common::standard_parts(e, 48000, 384000, check);
    e.put("cells_total", json!(480));
    e.set_exhaustive(false, "all 480 (version, level, mode) cells with their boundary lengths are enumerated; payload content is sampled");
}
