//! C17 — WASM entry points equal the native API and never trap.
//! Observes src/wasm.rs compiled for the host through the guarded `verif_wasm_host` module.

use crate::engine::{catch, fail, panic_sig, Engine, Fail, Job, JobCtx, Obs};
use crate::ensure;
use crate::fq::{f_level, f_version};
use crate::svgcase::*;
use fast_qr::convert::svg::SvgBuilder;
use fast_qr::convert::Builder;
use fast_qr::verif_wasm_host as wasm;
use fast_qr::QRBuilder;
use proptest::collection::vec;
use proptest::prelude::*;
use refmodel::tables::*;
use serde_json::{json, Value};

#[derive(Clone, Debug, PartialEq)]
pub enum WOp {
    Shape(usize),
    Margin(usize),
    Ecl(Level),
    Version(usize),
    Image(String),
    ImageSize(f64, f64),
    ImagePosition(Vec<f64>),
    ImageBgShape(usize),
    ModuleColor(String),
    BackgroundColor(String),
    ImageBgColor(String),
}

#[derive(Clone, Debug)]
pub struct Case {
    pub content: String,
    pub ops: Vec<WOp>,
}

fn fnum(x: f64) -> Value {
    if x.is_finite() {
        json!(x)
    } else {
        json!(format!("{}", x))
    }
}

fn fparse(v: &Value) -> Option<f64> {
    v.as_f64().or_else(|| v.as_str().and_then(|s| s.parse::<f64>().ok()))
}

fn op_json(op: &WOp) -> Value {
    match op {
        WOp::Shape(s) => json!({"shape": SHAPE_NAMES[*s]}),
        WOp::Margin(m) => json!({"margin": m}),
        WOp::Ecl(l) => json!({"ecl": l.name()}),
        WOp::Version(v) => json!({"version": v}),
        WOp::Image(s) => json!({"image": s}),
        WOp::ImageSize(s, g) => json!({"image_size": [fnum(*s), fnum(*g)]}),
        WOp::ImagePosition(p) => json!({"image_position": p.iter().map(|x| fnum(*x)).collect::<Vec<_>>()}),
        WOp::ImageBgShape(s) => json!({"image_background_shape": BG_SHAPE_NAMES[*s]}),
        WOp::ModuleColor(c) => json!({"module_color": c}),
        WOp::BackgroundColor(c) => json!({"background_color": c}),
        WOp::ImageBgColor(c) => json!({"image_background_color": c}),
    }
}

fn op_from(v: &Value) -> Option<WOp> {
    if let Some(s) = v.get("shape").and_then(|x| x.as_str()) {
        return Some(WOp::Shape(SHAPE_NAMES.iter().position(|n| *n == s)?));
    }
    if let Some(m) = v.get("margin").and_then(|x| x.as_u64()) {
        return Some(WOp::Margin(m as usize));
    }
    if let Some(l) = v.get("ecl").and_then(|x| x.as_str()) {
        return Some(WOp::Ecl(match l {
            "L" => Level::L,
            "M" => Level::M,
            "Q" => Level::Q,
            _ => Level::H,
        }));
    }
    if let Some(x) = v.get("version").and_then(|x| x.as_u64()) {
        return Some(WOp::Version(x as usize));
    }
    if let Some(s) = v.get("image").and_then(|x| x.as_str()) {
        return Some(WOp::Image(s.to_string()));
    }
    if let Some(a) = v.get("image_size").and_then(|x| x.as_array()) {
        return Some(WOp::ImageSize(fparse(a.get(0)?)?, fparse(a.get(1)?)?));
    }
    if let Some(a) = v.get("image_position").and_then(|x| x.as_array()) {
        return Some(WOp::ImagePosition(a.iter().filter_map(fparse).collect()));
    }
    if let Some(s) = v.get("image_background_shape").and_then(|x| x.as_str()) {
        return Some(WOp::ImageBgShape(BG_SHAPE_NAMES.iter().position(|n| *n == s)?));
    }
    if let Some(s) = v.get("module_color").and_then(|x| x.as_str()) {
        return Some(WOp::ModuleColor(s.to_string()));
    }
    if let Some(s) = v.get("background_color").and_then(|x| x.as_str()) {
        return Some(WOp::BackgroundColor(s.to_string()));
    }
    if let Some(s) = v.get("image_background_color").and_then(|x| x.as_str()) {
        return Some(WOp::ImageBgColor(s.to_string()));
    }
    None
}

pub fn to_json(c: &Case) -> Value {
    json!({"content": c.content, "content_len": c.content.len(), "ops": c.ops.iter().map(op_json).collect::<Vec<_>>()})
}

pub fn from_json(v: &Value) -> Option<Case> {
    Some(Case { content: v.get("content")?.as_str()?.to_string(), ops: v.get("ops")?.as_array()?.iter().filter_map(op_from).collect() })
}

/// `#RRGGBB` / `#RRGGBBAA`, `#` optional, hex digits in either case — the format the setters document
pub fn well_formed_color(s: &str) -> Option<[u8; 4]> {
    let t = s.strip_prefix('#').unwrap_or(s);
    if !(t.len() == 6 || t.len() == 8) || !t.bytes().all(|b| b.is_ascii_hexdigit()) {
        return None;
    }
    let b: Vec<u8> = (0..t.len() / 2).map(|i| u8::from_str_radix(&t[2 * i..2 * i + 2], 16).unwrap()).collect();
    Some([b[0], b[1], b[2], if b.len() == 4 { b[3] } else { 255 }])
}

fn apply(o: wasm::SvgOptions, op: &WOp) -> wasm::SvgOptions {
    match op {
        WOp::Shape(s) => o.shape(SHAPES[*s]),
        WOp::Margin(m) => o.margin(*m),
        WOp::Ecl(l) => o.ecl(f_level(*l)),
        WOp::Version(v) => o.version(f_version(*v)),
        WOp::Image(s) => o.image(s.clone()),
        WOp::ImageSize(s, g) => o.image_size(*s, *g),
        WOp::ImagePosition(p) => o.image_position(p.clone()),
        WOp::ImageBgShape(s) => o.image_background_shape(BG_SHAPES[*s]),
        WOp::ModuleColor(c) => o.module_color(c.clone()),
        WOp::BackgroundColor(c) => o.background_color(c.clone()),
        WOp::ImageBgColor(c) => o.image_background_color(c.clone()),
    }
}

pub fn check(c: &Case, obs: &mut Obs) -> Result<(), Fail> {
    if let Some(t) = EDGE_TOKENS.iter().find(|t| c.content.starts_with(**t)) {
        obs.label(&format!("content_starts_with:{}", t.escape_default()));
    }
    if EDGE_TOKENS.iter().any(|t| c.content.len() > t.len() && c.content.ends_with(*t)) {
        obs.label("content_ends_with_an_edge_token");
    }
    // (2) matrix export
    let exported = catch(|| wasm::qr(&c.content)).map_err(|p| Fail { sig: panic_sig(&p), msg: format!("qr({:?}…) panicked: {}", c.content.chars().take(40).collect::<String>(), p) })?;
    let native = catch(|| QRBuilder::new(c.content.as_str()).build()).map_err(|p| Fail { sig: panic_sig(&p), msg: format!("native build panicked: {}", p) })?;
    match &native {
        Ok(q) => {
            let n = q.size;
            ensure!(exported.len() == n * n, "matrix_len", "qr() returned {} bytes, native symbol has size {} ({} modules)", exported.len(), n, n * n);
            for i in 0..n * n {
                ensure!(exported[i] <= 1, "matrix_value", "qr() byte {} is {}", i, exported[i]);
                ensure!(
                    (exported[i] == 1) == q.data[i].value(),
                    "matrix_differs",
                    "qr() module (row {}, col {}) is {} but the native build has {}",
                    i / n, i % n, exported[i], q.data[i].value() as u8
                );
            }
        }
        Err(_) => {
            ensure!(exported.is_empty(), "matrix_not_empty", "qr() returned {} bytes for content the native builder rejects", exported.len());
            obs.label("content_over_capacity");
        }
    }
    // (1) no setter / entry point panics, for every program
    let svg = catch(|| {
        let mut o = wasm::SvgOptions::new();
        for op in &c.ops {
            o = apply(o, op);
        }
        wasm::qr_svg(&c.content, o)
    })
    .map_err(|p| Fail { sig: panic_sig(&p), msg: format!("SvgOptions setters / qr_svg panicked: {} (program {})", p, Value::Array(c.ops.iter().map(op_json).collect())) })?;
    // model of the program: last call wins
    let mut all_well_formed = true;
    let mut any_malformed = false;
    let mut cfg = SvgCfg { layers: vec![(0, None)], margin: Some(4), ..SvgCfg::default() };
    let mut module = [0u8, 0, 0, 255];
    let mut background = [255u8; 4];
    let mut image_bg = [255u8; 4];
    let mut image = String::new();
    let mut size_gap: Option<(f64, f64)> = None;
    let mut position: Option<(f64, f64)> = None;
    let mut level: Option<Level> = None;
    let mut version: Option<usize> = None;
    let mut bg_shape = 0usize;
    for op in &c.ops {
        match op {
            WOp::Shape(s) => cfg.layers = vec![(*s, None)],
            WOp::Margin(m) => cfg.margin = Some(*m),
            WOp::Ecl(l) => level = Some(*l),
            WOp::Version(v) => version = Some(*v),
            WOp::Image(s) => image = s.clone(),
            WOp::ImageSize(s, g) => size_gap = Some((*s, *g)),
            WOp::ImagePosition(p) => {
                if p.len() == 2 {
                    position = Some((p[0], p[1]));
                } else {
                    all_well_formed = false;
                    any_malformed = true;
                }
            }
            WOp::ImageBgShape(s) => bg_shape = *s,
            WOp::ModuleColor(s) | WOp::BackgroundColor(s) | WOp::ImageBgColor(s) => match well_formed_color(s) {
                Some(col) => match op {
                    WOp::ModuleColor(_) => module = col,
                    WOp::BackgroundColor(_) => background = col,
                    _ => image_bg = col,
                },
                None => {
                    all_well_formed = false;
                    any_malformed = true;
                }
            },
        }
    }
    let native_qr = catch(|| {
        let mut b = QRBuilder::new(c.content.as_str());
        if let Some(l) = level {
            b.ecl(f_level(l));
        }
        if let Some(v) = version {
            b.version(f_version(v));
        }
        b.build()
    })
    .map_err(|p| Fail { sig: panic_sig(&p), msg: format!("native build panicked: {}", p) })?;
    match &native_qr {
        Err(_) => {
            ensure!(svg.is_empty(), "svg_not_empty", "qr_svg returned {} bytes although the content cannot be encoded with these options", svg.len());
            obs.label("svg:empty_because_unencodable");
        }
        Ok(q) => {
            ensure!(!svg.is_empty(), "svg_empty", "qr_svg returned an empty string although the native builder encodes the content");
            if all_well_formed {
                // (3) byte-equal to the native builder with the same settings
                let want = catch(|| {
                    let mut b = SvgBuilder::default();
                    b.shape(SHAPES[cfg.layers[0].0]);
                    b.margin(cfg.margin.unwrap_or(4));
                    b.background_color(background);
                    b.module_color(module);
                    if !image.is_empty() {
                        b.image(image.clone());
                    }
                    b.image_background_color(image_bg);
                    b.image_background_shape(BG_SHAPES[bg_shape]);
                    if let Some((s, g)) = size_gap {
                        b.image_size(s);
                        b.image_gap(g);
                    }
                    if let Some((x, y)) = position {
                        b.image_position(x, y);
                    }
                    b.to_str(q)
                })
                .map_err(|p| Fail { sig: panic_sig(&p), msg: format!("native SvgBuilder panicked: {}", p) })?;
                if svg != want {
                    let first = svg.bytes().zip(want.bytes()).position(|(a, b)| a != b).unwrap_or(svg.len().min(want.len()));
                    let ctx = |s: &str| -> String { s.chars().skip(first.saturating_sub(30)).take(90).collect() };
                    let which = if position.is_some() && size_gap.is_none() && !image.is_empty() {
                        "svg_differs:position_without_size"
                    } else {
                        "svg_differs"
                    };
                    return fail(
                        which,
                        format!(
                            "qr_svg output differs from the native builder with the same settings at byte {}: wasm …{}… native …{}… (program {})",
                            first, ctx(&svg), ctx(&want), Value::Array(c.ops.iter().map(op_json).collect())
                        ),
                    );
                }
                obs.label("svg:compared_equal");
            } else {
                // malformed values: meaning not stated; output must still be well-formed XML
                if !image.chars().any(|ch| ch.is_control()) {
                    ensure!(roxmltree::Document::parse(&svg).is_ok(), "svg_ill_formed", "qr_svg output is not well-formed XML for a program with malformed values ({})", Value::Array(c.ops.iter().map(op_json).collect()));
                }
                obs.label("svg:malformed_values_no_equality");
            }
        }
    }
    let has_image_opt = c.ops.iter().any(|o| matches!(o, WOp::Image(_) | WOp::ImageSize(..) | WOp::ImagePosition(_) | WOp::ImageBgShape(_) | WOp::ImageBgColor(_)));
    if any_malformed {
        obs.label("program:malformed_value");
    }
    if has_image_opt {
        obs.label("program:image_option");
    }
    if size_gap.is_some() != position.is_some() && !image.is_empty() {
        obs.label("program:size_xor_position");
    }
    obs.label(&format!("ops:{}", c.ops.len().min(10)));
    if has_image_opt || any_malformed || level.is_some() || version.is_some() {
        obs.nontrivial(crate::engine::hash_value(&to_json(c)));
    }
    obs.sample(&format!("{}|{}", if any_malformed { "malformed" } else { "well_formed" }, if has_image_opt { "image" } else { "plain" }), || {
        let mut j = to_json(c);
        if c.content.len() > 80 {
            j["content"] = json!(format!("{}…", c.content.chars().take(60).collect::<String>()));
        }
        j["svg_bytes"] = json!(svg.len());
        j
    });
    Ok(())
}

pub fn replay(_e: &Engine, case: &Value, obs: &mut Obs) -> Result<(), Fail> {
    let c = from_json(case).ok_or_else(|| Fail { sig: "bad_replay".into(), msg: "cannot parse case".into() })?;
    check(&c, obs)
}

fn color_string() -> BoxedStrategy<String> {
    prop_oneof![
        // well-formed; a small palette first, so that two colour options often hold the same colour (in either spelling)
        3 => prop_oneof![Just("#1e1e2e"), Just("#1E1E2EFF"), Just("#000000"), Just("#ffffff"), Just("#FFFFFFFF"), Just("#00000000"), Just("#ff000080"), Just("1e1e2e")].prop_map(|s| s.to_string()),
        3 => any::<[u8; 3]>().prop_map(|c| format!("#{:02x}{:02x}{:02x}", c[0], c[1], c[2])),
        3 => any::<[u8; 4]>().prop_map(|c| format!("#{:02X}{:02x}{:02X}{:02x}", c[0], c[1], c[2], c[3])),
        1 => any::<[u8; 3]>().prop_map(|c| format!("{:02X}{:02X}{:02X}", c[0], c[1], c[2])),
        1 => any::<[u8; 4]>().prop_map(|c| format!("{:02x}{:02x}{:02x}{:02x}", c[0], c[1], c[2], c[3])),
        // malformed
        1 => prop_oneof![Just("red"), Just("blue"), Just("transparent"), Just("rgb(1,2,3)"), Just("#fff"), Just("#abcd"), Just("#12345"), Just("#1234567"),
                         Just("#gggggg"), Just("#12345z"), Just(""), Just("#"), Just("##112233"), Just("#éééééé"), Just("#1é2233"), Just("é"), Just("#00000é"),
                         Just("🚀🚀"), Just("# 12233"), Just("#+1+2+3"), Just("#-1-2-3"), Just("0x112233"), Just("#112233 "), Just(" #112233"), Just("#11223344556677889900")]
            .prop_map(|s| s.to_string()),
        1 => "[ -~]{0,12}",
        1 => "#[0-9a-fA-Fg-zé中]{0,10}",
        1 => "\\PC{0,6}",
        1 => (1usize..300).prop_map(|n| "f".repeat(n)),
    ]
    .boxed()
}

fn any_f64() -> BoxedStrategy<f64> {
    prop_oneof![
        4 => (0u32..400).prop_map(|x| x as f64 / 4.0),
        2 => (-1000i32..1000).prop_map(|x| x as f64 / 8.0),
        1 => prop_oneof![Just(0.0f64), Just(-0.0), Just(f64::NAN), Just(f64::INFINITY), Just(f64::NEG_INFINITY), Just(1e300), Just(-1e300), Just(f64::MIN_POSITIVE), Just(1e-9)],
        1 => any::<f64>(),
    ]
    .boxed()
}

fn op_strategy() -> BoxedStrategy<WOp> {
    prop_oneof![
        2 => (0usize..6).prop_map(WOp::Shape),
        2 => prop_oneof![3 => 0usize..=16, 1 => 0usize..=64].prop_map(WOp::Margin),
        2 => (0usize..4).prop_map(|l| WOp::Ecl(Level::from_index(l))),
        2 => prop_oneof![3 => 1usize..=10, 1 => 1usize..=40].prop_map(WOp::Version),
        3 => prop_oneof![2 => image_string(), 1 => Just(String::new()), 1 => Just("logo.png".to_string())].prop_map(WOp::Image),
        3 => (any_f64(), any_f64()).prop_map(|(s, g)| WOp::ImageSize(s, g)),
        3 => prop_oneof![3 => vec(any_f64(), 2..=2), 2 => vec(any_f64(), 0..=4)].prop_map(WOp::ImagePosition),
        1 => (0usize..3).prop_map(WOp::ImageBgShape),
        2 => color_string().prop_map(WOp::ModuleColor),
        2 => color_string().prop_map(WOp::BackgroundColor),
        2 => color_string().prop_map(WOp::ImageBgColor),
    ]
    .boxed()
}

/// Characters and sequences a "helpful" hand-over of the content might trim, fold or interpret at either end of the
/// text: byte-order mark, zero-width and no-break spaces, white space, NUL, line ends, the symbology identifier and
/// ECI escape of scanner output, a URI scheme.
const EDGE_TOKENS: [&str; 16] = ["\u{FEFF}", "\u{200B}", "\u{A0}", " ", "\t", "\n", "\r\n", "\0", "\u{2028}", "\u{200F}", "]Q1", "\\000026", "http://", "HTTPS://", "\u{FFFD}", "\u{1F600}"];

fn plain_content() -> BoxedStrategy<String> {
    prop_oneof![
        3 => "[ -~]{0,60}",
        2 => "[0-9]{0,80}",
        2 => "[0-9A-Z $%*+./:-]{0,80}",
        1 => "\\PC{0,40}",
        2 => (0usize..120).prop_flat_map(crate::gens::utf8_text).prop_map(|v| String::from_utf8(v).expect("utf8_text is well-formed")),
    ]
    .boxed()
}

fn content_strategy() -> BoxedStrategy<String> {
    prop_oneof![
        // a token at the very start / at the very end / at both ends / alone
        3 => (0usize..EDGE_TOKENS.len(), plain_content()).prop_map(|(t, b)| format!("{}{}", EDGE_TOKENS[t], b)),
        2 => (0usize..EDGE_TOKENS.len(), plain_content()).prop_map(|(t, b)| format!("{}{}", b, EDGE_TOKENS[t])),
        1 => (0usize..EDGE_TOKENS.len(), 0usize..EDGE_TOKENS.len(), plain_content()).prop_map(|(t, u, b)| format!("{}{}{}", EDGE_TOKENS[t], b, EDGE_TOKENS[u])),
        1 => (0usize..EDGE_TOKENS.len(), 1usize..4).prop_map(|(t, n)| EDGE_TOKENS[t].repeat(n)),
        2 => (0usize..200).prop_flat_map(crate::gens::utf8_text).prop_map(|v| String::from_utf8(v).expect("utf8_text is well-formed")),
        1 => Just(String::new()),
        4 => "[ -~]{0,60}",
        2 => "[0-9]{0,80}",
        2 => "[0-9A-Z $%*+./:-]{0,80}",
        2 => "\\PC{0,40}",
        1 => (0usize..8000).prop_map(|n| "7".repeat(n)),
        1 => (0usize..4400).prop_map(|n| "A1".repeat(n / 2)),
        1 => (0usize..1700).prop_map(|n| "é".repeat(n)),
        1 => (1600usize..1700).prop_map(|n| "x".repeat(n)),
    ]
    .boxed()
}

pub fn run(e: &'static Engine) {
    e.set_rule(
        "Generated: content strings (empty, printable ASCII, digits, 45-set, arbitrary Unicode, multi-script UTF-8 text, each optionally with an edge token - byte-order mark, zero-width / no-break space, white space, NUL, line ends, ]Q1, \\000026, a URI scheme - at its start, its end or both, long runs up to 8 000 bytes incl. over \
         capacity) x a program of 0..10 SvgOptions setter calls in any order with repetition: shape, margin 0..=64, ecl, version, image \
         (as C12, incl. empty), image_size(size, gap), image_position(vector of length 0..4), image_background_shape and the three \
         colour setters fed with #RRGGBB / #RRGGBBAA / no # / either case and malformed strings (names, 3-digit hex, odd length, \
         non-hex, non-ASCII, multibyte characters straddling a 2-byte chunk, empty, '#', very long); f64 values incl. NaN, +-inf, \
         +-0, 1e300. Oracle: (1) no panic from any setter or entry point; (2) qr(content) has size^2 bytes in {0,1} equal row-major to \
         QRBuilder::new(content).build(), empty iff native is Err; (3) qr_svg is '' iff the native build with the same ecl/version is \
         Err, otherwise byte-equal to the native SvgBuilder configured by the model of the program (last call wins; \
         image_size(s, g) -> image_size(s) + image_gap(g); position honoured whenever a 2-vector was given, independent of size; \
         empty image -> no image) — equality asserted only for programs whose colour arguments are all well-formed and whose \
         position vectors have length 2; otherwise only (1) and 'output is well-formed XML'. Non-trivial: >= 1 image option, or >= 1 \
         malformed value, or version/ecl set; distinct by case.",
    );
    e.assume("hook: src/wasm.rs is compiled unchanged for the host target; the wasm-bindgen glue itself is not exercised (no wasm32 target/runtime in the sandbox)");
    e.assume("margin is drawn from 0..=64 (a usize near usize::MAX would overflow viewBox arithmetic under the harness's overflow checks on any target)");
    crate::engine::run_regress(e, &|c, o| replay(e, c, o));
    let total: u32 = e.tier.pick(19200, 300_000);
    let shards = e.tier.pick(32u32, 96);
    let mut jobs: Vec<Job> = Vec::new();
    for _ in 0..shards {
        jobs.push(Box::new(move |jc: &mut JobCtx| {
            let strat = (content_strategy(), vec(op_strategy(), 0..=10)).prop_map(|(content, ops)| Case { content, ops });
            jc.run_prop(1 << 20, &strat, total / shards, to_json, check);
        }));
    }
    e.par(jobs);
    e.set_exhaustive(false, "content strings and setter programs are sampled");
}
