//! C15 — every module's public type label matches its ISO region.

use super::common::do_build;
use crate::engine::{catch, fail, panic_sig, Engine, Fail, Job, JobCtx, Obs};
use crate::ensure;
use crate::fq::{expected_label, BuildCase};
use crate::gens::{case_in_cell, Cell, Force};
use fast_qr::convert::svg::SvgBuilder;
use fast_qr::convert::{Builder, Shape};
use fast_qr::{Module, ModuleType};
use proptest::prelude::*;
use refmodel::geom::geometry;
use refmodel::tables::*;
use serde_json::{json, Value};

/// user callback: reports what it was given. x = column + margin, y = row + margin.
fn reporter(y: usize, x: usize, m: Module) -> String {
    format!("M{},{}t{}v{};", x, y, m.module_type() as u8, m.value() as u8)
}

/// the same report, but the callback itself uses the crate while a rendering is in progress (it builds another symbol
/// and renders it as SVG and as text every 16th call): callbacks are user code and may do that
fn reentrant_reporter(y: usize, x: usize, m: Module) -> String {
    if (x + 3 * y) % 16 == 0 {
        if let Ok(q) = fast_qr::QRBuilder::new(format!("INNER {} {}", x, y)).build() {
            let inner = SvgBuilder::default().shape(Shape::Command(reporter)).margin(1).to_str(&q);
            let text = q.to_str();
            assert!(inner.len() > 100 && text.len() > 100);
        }
    }
    reporter(y, x, m)
}

thread_local! {
    /// calls received by `recorder` on this thread: (y, x, type, value)
    static CALLS: std::cell::RefCell<Vec<(usize, usize, u8, u8)>> = std::cell::RefCell::new(Vec::new());
}

/// user callback for renderers whose output cannot be read back (raster): records what it was given and draws a unit
/// square
fn recorder(y: usize, x: usize, m: Module) -> String {
    CALLS.with(|c| c.borrow_mut().push((y, x, m.module_type() as u8, m.value() as u8)));
    format!("M{},{}h1v1h-1", x, y)
}

pub fn check(bc: &BuildCase, with_callback: bool, obs: &mut Obs) -> Result<(), Fail> {
    let built = match do_build(bc)? {
        Ok(b) => b,
        Err(e) => {
            obs.label(&format!("no_symbol:{:?}", e));
            return Ok(());
        }
    };
    let n = built.size();
    let v = version_from_size(n).ok_or_else(|| Fail { sig: "size".into(), msg: format!("bad size {}", n) })?;
    // "for that version": the version the symbol reports (what a callback or styling code reads) is the version whose
    // region map the labels follow
    if let Some(rv) = built.qr.version.map(crate::fq::version_no) {
        ensure!(rv == v, "version_of_the_map", "the symbol reports version {} but its matrix ({} x {}) and label map are those of version {} ({:?})", rv, n, n, v, bc);
    }
    let g = geometry(v);
    let mut data_labels = 0usize;
    for r in 0..n {
        for c in 0..n {
            let i = r * n + c;
            let raw = built.qr.data[i].0;
            ensure!(raw >> 1 <= 7, "label_bits", "module (row {}, col {}) has raw byte {:#04x}: type bits out of range", r, c, raw);
            let got = built.qr.data[i].module_type();
            let want = expected_label(g.region[i]);
            if got != want {
                return fail(
                    &format!("label:{:?}_in_{}", got, g.region[i].name()),
                    format!("v{}: module (row {}, col {}) is labelled {:?} but lies in the ISO {} region (expected label {:?}) ({:?})", v, r, c, got, g.region[i].name(), want, bc),
                );
            }
            if got == ModuleType::Data {
                data_labels += 1;
            }
        }
    }
    // copies made through `Clone` carry the same label map (clone(), clone_from onto a larger and onto a smaller symbol)
    if let Some(d) = crate::fq::copy_differs(&built.qr) {
        return fail("copy", format!("a copy of the symbol differs from it: {} ({:?})", d, bc));
    }
    let want_data = 8 * total_codewords(v) + remainder_bits(v);
    ensure!(data_labels == want_data, "data_count", "v{}: {} modules labelled data, 8 x {} codewords + {} remainder bits = {}", v, data_labels, total_codewords(v), remainder_bits(v), want_data);
    if with_callback {
        // labels as seen by a user shape callback
        let margin = (bc.input.len() + v) % 7;
        // renderer configurations around the callback: alone; with an embedded image (second converter option);
        // as the second layer after a built-in shape, with an image and an explicit layer colour
        let variant = bc.hash() % 4;
        let svg = catch(|| {
            let mut b = SvgBuilder::default();
            b.margin(margin);
            match variant {
                0 => {
                    b.shape(Shape::Command(reporter));
                }
                1 => {
                    b.shape(Shape::Command(reporter));
                    b.image("logo.png".to_string());
                }
                3 => {
                    b.shape(Shape::Command(reentrant_reporter));
                }
                _ => {
                    b.image("data:image/png;base64,AAAA".to_string());
                    b.shape_color(Shape::Command(reporter), [10u8, 20, 30]);
                    b.image_background_shape(fast_qr::convert::ImageBackgroundShape::Circle);
                }
            }
            b.to_str(&built.qr)
        })
        .map_err(|p| Fail { sig: panic_sig(&p), msg: format!("SvgBuilder with a Command shape panicked: {}", p) })?;
        obs.label(&format!("callback_variant:{}", variant));
        let start = svg.find("<path d=\"").map(|i| i + 9).ok_or_else(|| Fail { sig: "callback_path".into(), msg: "no path element in SVG".into() })?;
        let end = svg[start..].find('"').map(|i| i + start).unwrap_or(svg.len());
        let mut seen = vec![false; n * n];
        for tok in svg[start..end].split(';').filter(|t| !t.is_empty()) {
            // M{x},{y}t{type}v{value}
            let body = &tok[1..];
            let (xy, rest) = body.split_once('t').ok_or_else(|| Fail { sig: "callback_path".into(), msg: format!("bad token {:?}", tok) })?;
            let (xs, ys) = xy.split_once(',').unwrap_or(("", ""));
            let (ts, vs) = rest.split_once('v').unwrap_or(("", ""));
            let (x, y, t, val): (usize, usize, u8, u8) = (xs.parse().unwrap_or(9999), ys.parse().unwrap_or(9999), ts.parse().unwrap_or(255), vs.parse().unwrap_or(255));
            ensure!(x >= margin && y >= margin && x < n + margin && y < n + margin, "callback_coord", "callback invoked at x={} y={} outside the symbol (margin {}, size {})", x, y, margin, n);
            let (r, c) = (y - margin, x - margin);
            let want = expected_label(g.region[r * n + c]);
            ensure!(
                t == want as u8 && val == 1,
                "callback_label",
                "v{}: callback at (row {}, col {}) received type {} value {}, expected {:?} (= {}) and a dark module",
                v, r, c, t, val, want, want as u8
            );
            ensure!(!seen[r * n + c], "callback_dup", "callback invoked twice for (row {}, col {})", r, c);
            seen[r * n + c] = true;
        }
        // completeness (one call per dark module) is asserted only without an embedded image: whether modules covered
        // by the image are handed to the callback is not this property's business (C12 speaks about drawn modules)
        for i in (0..n * n).filter(|_| variant == 0 || variant == 3) {
            ensure!(seen[i] == built.qr.data[i].value(), "callback_missing", "callback {} for (row {}, col {}) although the module is {}", if seen[i] { "invoked" } else { "not invoked" }, i / n, i % n, if seen[i] { "light" } else { "dark" });
        }
        obs.label("with_callback");
        // the same callback contract through the raster builder (ImageBuilder), at original scale and with fit
        // requests, alone and next to a built-in layer; small symbols only (a raster costs milliseconds)
        if n <= 45 && bc.hash() % 2 == 0 {
            let variant = (bc.hash() / 2) % 4;
            CALLS.with(|c| c.borrow_mut().clear());
            let side = (n + 2 * margin) as u32;
            catch(|| {
                let mut ib = fast_qr::convert::image::ImageBuilder::default();
                ib.margin(margin);
                match variant {
                    0 => {
                        ib.shape(Shape::Command(recorder));
                    }
                    1 => {
                        ib.shape(Shape::Command(recorder));
                        ib.fit_width(side * 3);
                    }
                    2 => {
                        ib.shape(Shape::Square);
                        ib.shape_color(Shape::Command(recorder), [200u8, 30, 30]);
                        ib.fit_height(side * 2 + 7);
                    }
                    _ => {
                        ib.shape(Shape::Command(recorder));
                        ib.fit_width(side * 2);
                        ib.fit_height(side * 2);
                    }
                }
                ib.to_pixmap(&built.qr).width()
            })
            .map_err(|p| Fail { sig: panic_sig(&p), msg: format!("ImageBuilder with a Command shape panicked: {}", p) })?;
            let calls = CALLS.with(|c| std::mem::take(&mut *c.borrow_mut()));
            let mut seen = vec![false; n * n];
            for (y, x, t, val) in calls {
                ensure!(x >= margin && y >= margin && x < n + margin && y < n + margin, "callback_coord:raster", "raster callback invoked at x={} y={} outside the symbol (margin {}, size {})", x, y, margin, n);
                let (r, c) = (y - margin, x - margin);
                let want = expected_label(g.region[r * n + c]);
                ensure!(
                    t == want as u8 && val == 1,
                    "callback_label:raster",
                    "v{}: ImageBuilder (variant {}) callback at (row {}, col {}) received type {} value {}, expected {:?} (= {}) and a dark module",
                    v, variant, r, c, t, val, want, want as u8
                );
                ensure!(!seen[r * n + c], "callback_dup:raster", "raster callback invoked twice for (row {}, col {})", r, c);
                seen[r * n + c] = true;
            }
            for i in 0..n * n {
                ensure!(seen[i] == built.qr.data[i].value(), "callback_missing:raster", "raster callback {} for (row {}, col {})", if seen[i] { "invoked for a light module" } else { "not invoked for a dark module" }, i / n, i % n);
            }
            obs.label(&format!("raster_callback_variant:{}", variant));
        }
    }
    obs.label(&format!("band:{}", crate::gens::version_band(v)));
    obs.nontrivial(bc.hash());
    obs.sample(&format!("band:{}|callback:{}", crate::gens::version_band(v), with_callback), || {
        let mut s = bc.to_sample();
        s["version_built"] = json!(v);
        s["data_labels"] = json!(data_labels);
        s
    });
    Ok(())
}

pub fn replay(_e: &Engine, case: &Value, obs: &mut Obs) -> Result<(), Fail> {
    let b = BuildCase::from_json(case).ok_or_else(|| Fail { sig: "bad_replay".into(), msg: "cannot parse case".into() })?;
    check(&b, true, obs)
}

pub fn run(e: &'static Engine) {
    e.set_rule(
        "Enumerated: 40 versions x 4 levels x 8 forced masks (+ automatic) with generated payload/mode, every coordinate. Oracle: \
         QRCode.data[i].module_type() == image of the reference region map (Encoding->Data, Finder->FinderPattern, Separator->Empty, \
         Timing, Alignment (wins over timing), Format, Version, DarkModule); number of Data labels == 8 x total codewords + remainder \
         bits from the geometry formula; on every 4th case (thorough: every case) a Shape::Command callback rendered through \
         SvgBuilder must be invoked exactly once per dark module at (col+margin, row+margin) with that label. Non-trivial: every \
         case; distinct by case hash.",
    );
    e.extend_rule("the map must be the one of the REPORTED version; Clone copies byte-identical; a re-entrant callback variant (the callback builds and renders another symbol); raster callback observer.");
    e.assume("refmodel region map (drawn from the ISO figures; its Encoding count equals the geometry formula for all 40 versions)");
    crate::engine::run_regress(e, &|c, o| replay(e, c, o));
    let per: u32 = e.tier.pick(1, 6);
    let mut jobs: Vec<Job> = Vec::new();
    for v in 1..=40usize {
        jobs.push(Box::new(move |jc: &mut JobCtx| {
            let mut salt = 0u64;
            for &level in LEVELS.iter() {
                for mk in 0..9u8 {
                    let mask = if mk == 8 { None } else { Some(mk) };
                    salt += 1;
                    let cb = jc.engine.tier == crate::engine::Tier::Thorough || salt % 4 == 0;
                    let strat = (0usize..3, any::<bool>(), any::<bool>()).prop_flat_map(move |(mi, fm, fv)| {
                        let cell = Cell { version: v, level, mode: Mode::from_index(mi) };
                        case_in_cell(cell, Force { mode: fm, level: true, version: fv }, mask)
                    });
                    jc.run_prop(salt, &strat, per, |(c, _)| c.to_json(), |(c, _), o| check(c, cb, o));
                }
            }
        }));
    }
    e.par(jobs);
    super::common::standard_parts(e, 32000, 256000, |c, _fam, o| {
        // the user-callback view on small symbols (an SVG of a large symbol costs milliseconds)
        let small = c.opts.version.map(|v| v <= 6).unwrap_or(c.input.len() <= 60);
        check(c, small, o)
    });
    e.set_exhaustive(true, "40 versions x 4 levels x 9 mask settings, every coordinate of every symbol; payloads are sampled");
}
