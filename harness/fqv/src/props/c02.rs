//! C02 — EC blocks are valid RS codewords in the ISO block layout; recovery capacity is real.

use super::common::{do_build, label_case};
use crate::engine::{fail, splitmix, Engine, Fail, Job, JobCtx, Obs, Tier};
use crate::ensure;
use crate::fq::BuildCase;
use crate::gens::{case_in_cell, Cell, Force};
use proptest::prelude::*;
use refmodel::codec::{decode_correcting, decode_plain, interleave_map};
use refmodel::geom::geometry;
use refmodel::gf;
use refmodel::tables::*;
use serde_json::{json, Value};

#[derive(Clone, Debug)]
pub struct Case {
    pub build: BuildCase,
    pub fam: &'static str,
    /// None: no corruption. Some((seed, full)): corrupt floor(ec/2) (full) or 1..=floor(ec/2) codewords per block
    pub corrupt: Option<(u64, bool)>,
}

pub fn to_json(c: &Case) -> Value {
    let mut v = c.build.to_json();
    v["corrupt_seed"] = match c.corrupt {
        Some((s, _)) => json!(s.to_string()),
        None => Value::Null,
    };
    v["corrupt_full"] = json!(c.corrupt.map(|x| x.1));
    v
}

pub fn check(case: &Case, obs: &mut Obs) -> Result<(), Fail> {
    let bc = &case.build;
    let built = match do_build(bc)? {
        Ok(b) => b,
        Err(e) => {
            obs.label(&format!("no_symbol:{:?}", e));
            return Ok(());
        }
    };
    label_case(obs, bc, case.fam, Some(&built));
    let n = built.size();
    let vals = built.values();
    let d = decode_plain(&vals, n).map_err(|e| Fail { sig: "unreadable".into(), msg: format!("read-out failed: {} ({:?})", e, bc) })?;
    let v = d.read.version;
    let level = d.read.level;
    let lay = layout(v, level);
    ensure!(
        d.read.remainder.len() == remainder_bits(v) && d.read.remainder.iter().all(|&b| !b),
        "remainder_bits",
        "remainder bits before masking are {:?}, must be {} zero bits (v{} {} mask {}; {:?})",
        d.read.remainder,
        remainder_bits(v),
        v,
        level.name(),
        d.read.mask,
        bc
    );
    ensure!(d.blocks.len() == lay.blocks, "block_count", "{} blocks, Table 9 says {}", d.blocks.len(), lay.blocks);
    for (b, (data, ec)) in d.blocks.iter().enumerate() {
        let mut full = data.clone();
        full.extend_from_slice(ec);
        let s = gf::syndromes(&full, lay.ec);
        if let Some(i) = s.iter().position(|&x| x != 0) {
            return fail(
                "syndrome",
                format!(
                    "v{} {} mask {}: block {}/{} (data {} + ec {}) has syndrome S_{} = {:#04x} != 0 ({:?})",
                    v, level.name(), d.read.mask, b, lay.blocks, data.len(), ec.len(), i, s[i], bc
                ),
            );
        }
    }
    // the concatenated data blocks must decode to the input (pins the data-block order)
    ensure!(
        d.parsed.segments.len() == 1 && d.parsed.segments[0].bytes == bc.input,
        "data_block_order",
        "de-interleaved data codewords do not decode to the input (v{} {}; {:?})",
        v,
        level.name(),
        bc
    );
    let multi = lay.blocks >= 2;
    let two_groups = lay.long_blocks > 0 && lay.short_blocks > 0;
    if multi {
        obs.label("multi_block");
    }
    if two_groups {
        obs.label("two_group_layout");
    }
    if let Some((seed, full)) = case.corrupt {
        // corrupt up to floor(ec/2) codewords per block by flipping modules in the matrix
        let g = geometry(v);
        let map = interleave_map(v, level);
        let mut per_block: Vec<Vec<usize>> = vec![Vec::new(); lay.blocks];
        for (k, &(b, _, _)) in map.iter().enumerate() {
            per_block[b].push(k);
        }
        let mut m = vals.clone();
        let mut x = seed;
        let t_max = lay.ec / 2;
        let mut flipped_codewords = 0;
        for b in 0..lay.blocks {
            x = splitmix(x);
            let t = if full { t_max } else { 1 + (x as usize % t_max) };
            let cws = &per_block[b];
            let mut chosen: Vec<usize> = Vec::new();
            while chosen.len() < t {
                x = splitmix(x);
                let k = cws[(x % cws.len() as u64) as usize];
                if !chosen.contains(&k) {
                    chosen.push(k);
                }
            }
            for k in chosen {
                x = splitmix(x);
                let mut e = (x & 0xff) as u8;
                if e == 0 {
                    e = 0x80;
                }
                for i in 0..8 {
                    if (e >> (7 - i)) & 1 == 1 {
                        let (r, c) = g.order[k * 8 + i];
                        m[r * n + c] = !m[r * n + c];
                    }
                }
                flipped_codewords += 1;
            }
        }
        obs.label(if full { "corrupted:full_capacity" } else { "corrupted:partial" });
        obs.count("corrupted_codewords", flipped_codewords);
        let (dc, ncorr) = decode_correcting(&m, n).map_err(|e| Fail {
            sig: "uncorrectable".into(),
            msg: format!(
                "v{} {}: after corrupting <= floor({}/2) codewords per block ({} in total) the reference RS decoder fails: {} ({:?})",
                v, level.name(), lay.ec, flipped_codewords, e, bc
            ),
        })?;
        ensure!(
            dc.data == d.data && dc.parsed.segments.len() == 1 && dc.parsed.segments[0].bytes == bc.input,
            "miscorrected",
            "v{} {}: RS decoding of the corrupted symbol ({} codewords corrected) does not return the payload ({:?})",
            v,
            level.name(),
            ncorr,
            bc
        );
    }
    if multi || two_groups || case.corrupt.is_some() {
        obs.nontrivial(crate::engine::hash_value(&to_json(case)));
    }
    obs.sample(&format!("blocks:{}|corrupt:{}", if two_groups { "two_groups" } else if multi { "multi" } else { "single" }, case.corrupt.is_some()), || {
        let mut s = bc.to_sample();
        s["layout"] = json!(format!("{}x({}+{}) + {}x({}+{})", lay.short_blocks, lay.short_data, lay.ec, lay.long_blocks, lay.long_data, lay.ec));
        s["corrupt"] = json!(case.corrupt.map(|c| c.1));
        s
    });
    Ok(())
}

/// A long-lived thread: counters, epochs and generation tags kept per thread wrap around after 2^8 or 2^16 events.
/// Everything here is a pure function of (wrap, seed) and runs on the calling thread. Phase A: 64 version-1 symbols
/// with generated payloads, the level cycling L, M, Q, H so that every build uses another generator polynomial than
/// the one before (each is checked). Phase B: the constant payload "1" alternating between L and M until
/// `wrap - 64 - 40` builds have been made in total (unchecked, they only advance whatever is being counted while
/// touching as few coefficient values as possible). Phase C: 120 more generated payloads with the level cycle shifted
/// by one, each checked in full: they cross the wrap, so an event number of phase A recurs with another generator
/// in force and with rows / entries of phase A not refreshed since.
pub fn check_long_thread(wrap: u32, seed: u64, obs: &mut Obs) -> Result<(), Fail> {
    use crate::fq::Opts;
    let gen_case = |i: u64, shift: usize| -> Case {
        let r = splitmix(seed ^ splitmix(i));
        let len = 1 + (r % 7) as usize;
        let input: Vec<u8> = (0..len).map(|k| (splitmix(r.wrapping_add(k as u64)) >> 24) as u8).collect();
        let level = LEVELS[(i as usize + shift) % 4];
        Case { build: BuildCase::new(input, Opts { mode: Some(Mode::Byte), level: Some(level), version: Some(1), mask: Some((r >> 8) as u8 % 8) }), fam: "long_thread", corrupt: None }
    };
    let ctx = |phase: &str, i: u64, f: Fail| Fail { sig: format!("long_thread:{}", f.sig), msg: format!("{} build {} of a thread history with {} builds before the wrap (seed {}): {}", phase, i, wrap, seed, f.msg) };
    for i in 0..64u64 {
        check(&gen_case(i, 0), obs).map_err(|f| ctx("phase A", i, f))?;
    }
    let filler = wrap.saturating_sub(64 + 40) as u64;
    for i in 0..filler {
        let level = if i % 2 == 0 { Level::L } else { Level::M };
        let r = crate::engine::catch(|| fast_qr::QRBuilder::new("1").ecl(crate::fq::f_level(level)).version(crate::fq::f_version(1)).mask(crate::fq::f_mask(0)).build().is_ok());
        match r {
            Ok(true) => {}
            Ok(false) => return fail("long_thread:filler_refused", format!("the build of \"1\" at version 1 failed after {} builds on this thread", 64 + i)),
            Err(p) => return fail(&crate::engine::panic_sig(&p), format!("the build of \"1\" at version 1 panicked after {} builds on this thread: {}", 64 + i, p)),
        }
    }
    for i in 0..120u64 {
        check(&gen_case(1000 + i, 1), obs).map_err(|f| ctx("phase C", i, f))?;
    }
    obs.count("long_thread_builds", 64 + filler + 120);
    obs.label(&format!("long_thread:wrap_2^{}", 31 - wrap.leading_zeros()));
    obs.nontrivial(crate::engine::hash_bytes(format!("long|{}|{}", wrap, seed).as_bytes()));
    obs.sample(&format!("long_thread|{}", wrap), || json!({"long_thread": {"wrap": wrap, "seed": seed.to_string()}, "builds_on_the_thread": 64 + filler + 120}));
    Ok(())
}

pub fn replay(_e: &Engine, case: &Value, obs: &mut Obs) -> Result<(), Fail> {
    if let Some(l) = case.get("long_thread") {
        let wrap = l.get("wrap").and_then(|x| x.as_u64()).unwrap_or(256) as u32;
        let seed = l.get("seed").and_then(|x| x.as_str()).and_then(|x| x.parse::<u64>().ok()).unwrap_or(0);
        return check_long_thread(wrap, seed, obs);
    }
    let b = BuildCase::from_json(case).ok_or_else(|| Fail { sig: "bad_replay".into(), msg: "cannot parse case".into() })?;
    let corrupt = match case.get("corrupt_seed").and_then(|s| s.as_str()).and_then(|s| s.parse::<u64>().ok()) {
        Some(s) => Some((s, case.get("corrupt_full").and_then(|x| x.as_bool()).unwrap_or(true))),
        None => None,
    };
    check(&Case { build: b, fam: "replay", corrupt }, obs)
}

pub fn run(e: &'static Engine) {
    e.set_rule(
        "Enumerated: all 160 (version, level) x 8 forced masks (+ automatic mask in thorough); per combination proptest draws the mode \
         class, length (boundary-biased inside the cell) and payload. Oracle: reference read-out -> remainder bits zero -> \
         de-interleave by the reference Table 9 -> all ec syndromes S_0..S_{ec-1} zero for every block -> concatenated data blocks \
         decode to the input. Corollary (every 2nd build quick, every build thorough): per block up to floor(ec/2) codewords \
         (half the cases exactly floor(ec/2)) get generated non-zero error values by flipping the corresponding modules, and the \
         reference Berlekamp-Massey/Chien/Forney decoder must recover the data codewords and payload. Non-trivial: >= 2 blocks, \
         or a two-group layout, or corruption applied; distinct by case hash.",
    );
    e.extend_rule("block look-alike payloads and thread histories come in through the shared generators. Part long_lived_thread: one thread makes 2^8 or 2^16 version-1 builds whose generator polynomial changes at every build (64 checked, the filler unchecked), then 120 checked builds that cross the wrap with the level cycle shifted - per-thread counters, epochs and generation tags that wrap.");
    e.assume("refmodel Table 9 (typed) is right: guarded by blocks*ec+data=total identity and the qrcode-crate self-test");
    e.assume("refmodel GF(256)/RS decoder is right: unit-tested against computed codewords");
    crate::engine::run_regress(e, &|c, o| replay(e, c, o));
    let per: u32 = e.tier.pick(1, 6);
    let mut jobs: Vec<Job> = Vec::new();
    for v in 1..=40usize {
        jobs.push(Box::new(move |jc: &mut JobCtx| {
            let mut salt = 0;
            for &level in LEVELS.iter() {
                let masks: Vec<Option<u8>> = if jc.engine.tier == Tier::Thorough { (0..8).map(Some).chain([None]).collect() } else { (0..8).map(Some).collect() };
                for mask in masks {
                    salt += 1;
                    let every = jc.engine.tier.pick(2u64, 1);
                    let want_corrupt = salt % every == 0;
                    let strat = (0usize..3, any::<bool>(), any::<bool>(), any::<u64>(), any::<bool>()).prop_flat_map(move |(mi, fm, fv, seed, full)| {
                        let cell = Cell { version: v, level, mode: Mode::from_index(mi) };
                        case_in_cell(cell, Force { mode: fm, level: true, version: fv }, mask).prop_map(move |(b, fam)| Case {
                            build: b,
                            fam,
                            corrupt: if want_corrupt { Some((seed, full)) } else { None },
                        })
                    });
                    jc.run_prop(salt, &strat, per, to_json, check);
                }
            }
        }));
    }
    e.par(jobs);
    // short payloads in forced (larger) versions: pure padding blocks, segments ending at a block boundary
    let total: u32 = e.tier.pick(32000, 256000);
    let shards = e.tier.pick(32u32, 96);
    let mut jobs: Vec<Job> = Vec::new();
    for _ in 0..shards {
        jobs.push(Box::new(move |jc: &mut JobCtx| {
            let strat = (crate::gens::padded_forced(), any::<u64>(), any::<bool>(), 0u8..4).prop_map(|((b, fam, _), seed, full, k)| Case {
                build: b,
                fam,
                corrupt: if k == 0 { Some((seed, full)) } else { None },
            });
            jc.run_prop(2 << 20, &strat, total / shards, to_json, |c, o| {
                o.label("part:padded_forced_version");
                check(c, o)
            });
        }));
    }
    e.par(jobs);
    // the generated parts shared by the matrix-level properties: random cells, automatic-mask builds, steered matrices,
    // data blocks of generated kinds (padding look-alikes, zero / constant / near-copy / generator-multiple blocks),
    // realistic payloads, extreme textures
    super::common::standard_parts(e, 16000, 192000, |bc, fam, o| {
        let corrupt = if bc.hash() % 4 == 0 { Some((bc.hash(), bc.hash() % 8 == 0)) } else { None };
        check(&Case { build: bc.clone(), fam: "shared", corrupt }, o).map(|_| { let _ = fam; })
    });
    // long-lived threads: per-thread counters / epochs / generation tags that wrap after 2^8 or 2^16 events
    let mut jobs: Vec<Job> = Vec::new();
    let long16: u64 = e.tier.pick(2u64, 12);
    for j in 0..(8 + long16) {
        jobs.push(Box::new(move |jc: &mut JobCtx| {
            let wrap: u32 = if j < 8 { 1 << 8 } else { 1 << 16 };
            // the seed is not shrunk: every candidate costs a whole thread history
            let strat = any::<u64>().no_shrink();
            jc.run_prop((3 << 20) + j, &strat, if j < 8 { 2 } else { 1 }, move |s| json!({"long_thread": {"wrap": wrap, "seed": s.to_string()}}), move |s, o| {
                o.label("part:long_lived_thread");
                check_long_thread(wrap, *s, o)
            });
        }));
    }
    e.par(jobs);
    e.put("cells_total", json!(160 * 8));
    e.set_exhaustive(false, "all 160 (version, level) pairs x 8 masks are enumerated in every run; payloads and corruption patterns are sampled");
}
