//! C13 — raster/PNG output reproduces the matrix at module centres.

use super::common::do_build;
use crate::engine::{catch, fail, panic_sig, Engine, Fail, Job, JobCtx, Obs, Tier};
use crate::ensure;
use crate::fq::BuildCase;
use crate::gens::{case_in_cell, Cell, Force};
use crate::svgcase::*;
use fast_qr::convert::image::ImageBuilder;
use proptest::prelude::*;
use refmodel::tables::*;
use serde_json::{json, Value};

#[derive(Clone, Copy, Debug, PartialEq)]
pub enum Fit {
    Original,
    Width(u32),
    Height(u32),
    Both(u32, u32),
}

#[derive(Clone, Debug)]
pub struct Case {
    pub build: BuildCase,
    pub cfg: SvgCfg,
    pub fit: Fit,
    /// call order of the fit setters and the common options: 0 options, width, height; 1 options, height, width;
    /// 2 width, height, options; 3 height, width, options (the result must not depend on it)
    pub fit_order: u8,
    /// fit requests made on the same ImageBuilder BEFORE the final one, each optionally followed by a render: the
    /// setters are last-value-wins per dimension (a width stays set until fit_width is called again), and a render in
    /// between must not influence later renders
    pub pre_fits: Vec<(Fit, bool)>,
}

fn fit_json(f: Fit) -> Value {
    match f {
        Fit::Original => json!("original"),
        Fit::Width(w) => json!({"width": w}),
        Fit::Height(h) => json!({"height": h}),
        Fit::Both(w, h) => json!({"width": w, "height": h}),
    }
}

fn fit_from(f: &Value) -> Fit {
    if f.is_string() {
        Fit::Original
    } else {
        match (f.get("width").and_then(|x| x.as_u64()), f.get("height").and_then(|x| x.as_u64())) {
            (Some(w), Some(h)) => Fit::Both(w as u32, h as u32),
            (Some(w), None) => Fit::Width(w as u32),
            (None, Some(h)) => Fit::Height(h as u32),
            _ => Fit::Original,
        }
    }
}

pub fn to_json(c: &Case) -> Value {
    let fit = fit_json(c.fit);
    json!({"build": c.build.to_json(), "svg": c.cfg.to_json(), "fit": fit, "fit_order": c.fit_order,
           "pre_fits": c.pre_fits.iter().map(|(f, r)| json!({"fit": fit_json(*f), "render": r})).collect::<Vec<_>>()})
}

pub fn from_json(v: &Value) -> Option<Case> {
    let f = v.get("fit")?;
    let fit = if f.is_string() {
        Fit::Original
    } else {
        match (f.get("width").and_then(|x| x.as_u64()), f.get("height").and_then(|x| x.as_u64())) {
            (Some(w), Some(h)) => Fit::Both(w as u32, h as u32),
            (Some(w), None) => Fit::Width(w as u32),
            (None, Some(h)) => Fit::Height(h as u32),
            _ => Fit::Original,
        }
    };
    Some(Case { build: BuildCase::from_json(v.get("build")?)?, cfg: SvgCfg::from_json(v.get("svg")?)?, fit, fit_order: v.get("fit_order").and_then(|x| x.as_u64()).unwrap_or(0) as u8,
        pre_fits: v.get("pre_fits").and_then(|x| x.as_array()).map(|a| a.iter().map(|p| (fit_from(&p["fit"]), p["render"].as_bool().unwrap_or(false))).collect()).unwrap_or_default() })
}

pub fn image_builder(c: &SvgCfg, fit: Fit) -> ImageBuilder {
    image_builder_ordered(c, fit, 0)
}

fn set_fit(ib: &mut ImageBuilder, fit: Fit, order: u8) {
    match fit {
        Fit::Original => {}
        Fit::Width(w) => {
            ib.fit_width(w);
        }
        Fit::Height(h) => {
            ib.fit_height(h);
        }
        Fit::Both(w, h) => {
            if order % 2 == 0 {
                ib.fit_width(w);
                ib.fit_height(h);
            } else {
                ib.fit_height(h);
                ib.fit_width(w);
            }
        }
    }
}

pub fn image_builder_ordered(c: &SvgCfg, fit: Fit, fit_order: u8) -> ImageBuilder {
    let mut ib = ImageBuilder::default();
    if fit_order < 2 {
        c.apply_for_warm(&mut ib);
    }
    match fit {
        Fit::Original => {}
        Fit::Width(w) => {
            ib.fit_width(w);
        }
        Fit::Height(h) => {
            ib.fit_height(h);
        }
        Fit::Both(w, h) => {
            if fit_order % 2 == 0 {
                ib.fit_width(w);
                ib.fit_height(h);
            } else {
                ib.fit_height(h);
                ib.fit_width(w);
            }
        }
    }
    if fit_order >= 2 {
        c.apply_for_warm(&mut ib);
    }
    ib
}

fn close(a: [u8; 4], b: [u8; 4], tol: i32) -> bool {
    (0..4).all(|i| (a[i] as i32 - b[i] as i32).abs() <= tol)
}

pub fn check(c: &Case, obs: &mut Obs) -> Result<(), Fail> {
    let built = match do_build(&c.build)? {
        Ok(b) => b,
        Err(e) => {
            obs.label(&format!("no_symbol:{:?}", e));
            return Ok(());
        }
    };
    let mut built = built;
    if let Some(what) = built.edit_after_build(c.build.hash() ^ 0x13) {
        obs.label(&format!("modules_edited_after_build:{}", what));
    }
    let n = built.size();
    let vals = built.values();
    let margin = c.cfg.margin_eff();
    let s = n + 2 * margin;
    // last value wins per dimension over the whole setter history
    let (mut w_set, mut h_set): (Option<u32>, Option<u32>) = (None, None);
    for f in c.pre_fits.iter().map(|p| p.0).chain([c.fit]) {
        match f {
            Fit::Original => {}
            Fit::Width(w) => w_set = Some(w),
            Fit::Height(h) => h_set = Some(h),
            Fit::Both(w, h) => {
                w_set = Some(w);
                h_set = Some(h);
            }
        }
    }
    let want_side = match (w_set, h_set) {
        (None, None) => s as u32,
        (Some(w), None) => w,
        (None, Some(h)) => h,
        (Some(w), Some(h)) => w.min(h),
    };
    let mut ib = if c.pre_fits.is_empty() {
        image_builder_ordered(&c.cfg, c.fit, c.fit_order)
    } else {
        // options first, then the history of fit requests (with renders in between), then the final request
        let mut ib = image_builder_ordered(&c.cfg, Fit::Original, 0);
        for (f, render) in &c.pre_fits {
            set_fit(&mut ib, *f, c.fit_order);
            if *render {
                let _ = catch(|| ib.to_pixmap(&built.qr).width());
            }
        }
        set_fit(&mut ib, c.fit, c.fit_order);
        obs.label("fit_history");
        ib
    };
    if c.cfg.warm.is_some() || c.cfg.pred != 0 {
        catch(|| c.cfg.warm_up_image_builder(&mut ib, &built.qr)).map_err(|p| Fail { sig: panic_sig(&p), msg: format!("warm-up render panicked: {}", p) })?;
        obs.label("renderer_instance_reused");
    }
    let pm = catch(|| ib.to_pixmap(&built.qr)).map_err(|p| Fail { sig: panic_sig(&p), msg: format!("to_pixmap panicked: {} ({})", p, to_json(c)) })?;
    ensure!(
        pm.width() == want_side && pm.height() == want_side,
        "pixmap_size",
        "pixmap is {} x {}, expected a square of side {} (size {} + 2 x margin {} = {}, fit {:?})",
        pm.width(),
        pm.height(),
        want_side,
        n,
        margin,
        s,
        c.fit
    );
    let side = want_side as usize;
    let k = side as f64 / s as f64;
    // the colour of the LAST layer (layers paint over each other in call order; every built-in shape covers the centre
    // of its cell, and lower layers are only generated with opaque colours): explicit through shape_color(), else the
    // module colour, else black
    let module_rgba = c
        .cfg
        .layers
        .last()
        .and_then(|l| l.1.as_ref())
        .and_then(|x| x.rgba_any())
        .or_else(|| c.cfg.module_color.as_ref().and_then(|x| x.rgba_any()))
        .unwrap_or([0, 0, 0, 255]);
    let bg_rgba = c.cfg.background.as_ref().and_then(|x| x.rgba_any()).unwrap_or([255, 255, 255, 255]);
    let shape = c.cfg.layers.last().map(|l| l.0).unwrap_or(0);
    if c.cfg.layers.len() >= 2 {
        obs.label(&format!("layers:{}", c.cfg.layers.len()));
    }
    let px = |x: usize, y: usize| -> [u8; 4] {
        let p = pm.pixel(x as u32, y as u32).unwrap().demultiply();
        [p.red(), p.green(), p.blue(), p.alpha()]
    };
    // expected colours after compositing onto the (possibly transparent) canvas
    // a partially transparent background is stored premultiplied in 8 bits: read back, a colour channel is only known to
    // 255 / (2 x alpha) (+ rounding); the alpha channel is exact
    let bg_tol = if bg_rgba[3] == 255 || bg_rgba[3] == 0 { 0 } else { 255 / (2 * bg_rgba[3] as i32) + 2 };
    let bg_matches = |p: [u8; 4]| -> bool {
        if bg_rgba[3] == 0 {
            p[3] == 0
        } else {
            // the alpha channel itself is exact (only the colour channels go through premultiplication rounding)
            (0..3).all(|i| (p[i] as i32 - bg_rgba[i] as i32).abs() <= bg_tol) && p[3] == bg_rgba[3]
        }
    };
    // With an embedded image the frame and the image hide what they cover - and nothing else. Where they are is taken
    // from the SVG of the same configuration (C18 checks that geometry); a cell is then skipped by the every-pixel rule
    // when it touches frame or image at all, and by the centre rule when its centre is within a quarter module of them.
    let hidden: Option<super::c18::Frame> = match &c.cfg.image {
        Some(_) => {
            let svg = catch(|| {
                let mut plain = c.cfg.clone();
                plain.warm = None;
                plain.pred = 0;
                plain.svg_string(&built.qr)
            })
            .map_err(|p| Fail { sig: panic_sig(&p), msg: format!("SvgBuilder panicked: {}", p) })?;
            obs.label("with_embedded_image");
            Some(super::c18::frame_of(&svg)?)
        }
        None => None,
    };
    let covered = |r: usize, cc: usize, whole_cell: bool| -> bool {
        let Some(f) = &hidden else { return false };
        let (x0, y0, x1, y1) = if whole_cell { (cc as f64, r as f64, cc as f64 + 1.0, r as f64 + 1.0) } else { (cc as f64 + 0.25, r as f64 + 0.25, cc as f64 + 0.75, r as f64 + 0.75) };
        let hit = |rx: f64, ry: f64, rw: f64, rh: f64| x0 < rx + rw.max(0.0) + 1e-9 && x1 > rx.min(rx + rw) - 1e-9 && y0 < ry + rh.max(0.0) + 1e-9 && y1 > ry.min(ry + rh) - 1e-9;
        hit(f.x, f.y, f.w, f.h) || hit(f.ix, f.iy, f.iw, f.ih)
    };
    let integer_scale = (side % s == 0) && side >= s;
    let ki = side / s;
    let mode;
    // every pixel of a cell is only determined when every layer is the plain square (other shapes leave parts of the cell
    // to the layer below, and the rounded square's outline reaches into the neighbouring cells)
    if integer_scale && c.cfg.layers.iter().all(|l| l.0 == 0) {
        mode = "every_pixel";
        for r in 0..s {
            for cc in 0..s {
                if covered(r, cc, true) {
                    continue;
                }
                let inside = r >= margin && cc >= margin && r < margin + n && cc < margin + n;
                let dark = inside && vals[(r - margin) * n + (cc - margin)];
                for dy in 0..ki {
                    for dx in 0..ki {
                        let p = px(cc * ki + dx, r * ki + dy);
                        let ok = if dark { p == module_rgba } else { bg_matches(p) };
                        if !ok {
                            return fail(
                                if dark { "dark_pixel" } else { "light_pixel" },
                                format!(
                                    "pixel ({}, {}) of cell (row {}, col {}) [{}] is {:?}, expected {:?} (scale {}, margin {}; {})",
                                    cc * ki + dx, r * ki + dy, r as i64 - margin as i64, cc as i64 - margin as i64,
                                    if dark { "dark module" } else if inside { "light module" } else { "quiet zone" },
                                    p, if dark { module_rgba } else { bg_rgba }, ki, margin, to_json(c)
                                ),
                            );
                        }
                    }
                }
            }
        }
    } else if k >= 4.0 {
        mode = "centre_sampling";
        for r in 0..s {
            for cc in 0..s {
                if covered(r, cc, false) {
                    continue;
                }
                let inside = r >= margin && cc >= margin && r < margin + n && cc < margin + n;
                let dark = inside && vals[(r - margin) * n + (cc - margin)];
                let x = ((cc as f64 + 0.5) * k).floor() as usize;
                let y = ((r as f64 + 0.5) * k).floor() as usize;
                let p = px(x.min(side - 1), y.min(side - 1));
                let ok = if dark { p == module_rgba } else { bg_matches(p) };
                if !ok {
                    return fail(
                        if dark { "dark_centre" } else { "light_centre" },
                        format!(
                            "centre pixel ({}, {}) of cell (row {}, col {}) [{}] is {:?}, expected {:?} ({:.2} px/module, shape {}, margin {}; {})",
                            x, y, r as i64 - margin as i64, cc as i64 - margin as i64,
                            if dark { "dark module" } else if inside { "light module" } else { "quiet zone" },
                            p, if dark { module_rgba } else { bg_rgba }, k, SHAPE_NAMES[shape], margin, to_json(c)
                        ),
                    );
                }
            }
        }
    } else {
        mode = "size_only";
    }
    // PNG bytes decode to exactly the same pixels
    let bytes = catch(|| ib.to_bytes(&built.qr)).map_err(|p| Fail { sig: panic_sig(&p), msg: format!("to_bytes panicked: {}", p) })?;
    let bytes = bytes.map_err(|e| Fail { sig: "to_bytes_err".into(), msg: format!("to_bytes returned an error: {}", e) })?;
    let dec = png::Decoder::new(std::io::Cursor::new(&bytes));
    let mut reader = dec.read_info().map_err(|e| Fail { sig: "png_invalid".into(), msg: format!("PNG does not decode: {}", e) })?;
    let mut buf = vec![0u8; reader.output_buffer_size()];
    let info = reader.next_frame(&mut buf).map_err(|e| Fail { sig: "png_invalid".into(), msg: format!("PNG does not decode: {}", e) })?;
    ensure!(info.width == want_side && info.height == want_side, "png_size", "PNG is {} x {}, pixmap is {} x {}", info.width, info.height, want_side, want_side);
    ensure!(info.color_type == png::ColorType::Rgba && info.bit_depth == png::BitDepth::Eight, "png_format", "PNG is {:?}/{:?}", info.color_type, info.bit_depth);
    for y in 0..side {
        for x in 0..side {
            let o = (y * side + x) * 4;
            let q = [buf[o], buf[o + 1], buf[o + 2], buf[o + 3]];
            let p = px(x, y);
            // a fully transparent pixel has no defined colour
            if q != p && !(q[3] == 0 && p[3] == 0) {
                return fail("png_pixel", format!("PNG pixel ({}, {}) is {:?} but the pixmap has {:?} ({})", x, y, q, p, to_json(c)));
            }
        }
    }
    obs.label(&format!("mode:{}", mode));
    obs.label(&format!("shape:{}", SHAPE_NAMES[shape]));
    obs.label(&format!("fit:{}", match c.fit { Fit::Original => "original", Fit::Width(_) => "width", Fit::Height(_) => "height", Fit::Both(_, _) => "both" }));
    obs.label(&format!("bg_alpha:{}", match bg_rgba[3] { 255 => "opaque", 0 => "transparent", _ => "partial" }));
    obs.label(&format!("band:{}", crate::gens::version_band(version_from_size(n).unwrap_or(1))));
    if shape != 0 || c.fit != Fit::Original || c.cfg.margin.is_some() || bg_rgba[3] != 255 {
        obs.nontrivial(crate::engine::hash_value(&to_json(c)));
    }
    obs.sample(&format!("{}|{}", mode, SHAPE_NAMES[shape]), || json!({"build": c.build.to_sample(), "svg": c.cfg.to_json(), "fit": to_json(c)["fit"], "pixmap_side": side, "png_bytes": bytes.len()}));
    Ok(())
}

pub fn replay(_e: &Engine, case: &Value, obs: &mut Obs) -> Result<(), Fail> {
    let c = from_json(case).ok_or_else(|| Fail { sig: "bad_replay".into(), msg: "cannot parse case".into() })?;
    check(&c, obs)
}

fn colours() -> BoxedStrategy<(Option<ColorSpec>, Option<ColorSpec>)> {
    // opaque module colour; background opaque / fully transparent / partially transparent; the two differ clearly
    (
        prop_oneof![
            2 => Just(None),
            4 => (0u8..120, 0u8..120, 0u8..120).prop_map(|(r, g, b)| Some(ColorSpec::Rgb([r, g, b]))),
            // the same colours as hex strings, long and short form (the documented &str / String conversions)
            1 => (0u8..120, 0u8..120, 0u8..120).prop_map(|(r, g, b)| Some(ColorSpec::Css(format!("#{:02x}{:02X}{:02x}", r, g, b)))),
            1 => (0u8..8, 0u8..8, 0u8..8).prop_map(|(r, g, b)| Some(ColorSpec::Css(format!("#{:x}{:x}{:x}", r, g, b)))),
        ],
        prop_oneof![
            2 => Just(None),
            2 => (140u8..=255, 140u8..=255, 140u8..=255).prop_map(|(r, g, b)| Some(ColorSpec::Rgb([r, g, b]))),
            1 => (9u8..16, 9u8..16, 9u8..16).prop_map(|(r, g, b)| Some(ColorSpec::Css(format!("#{:x}{:X}{:x}", r, g, b)))),
            1 => (140u8..=255, 140u8..=255, 140u8..=255).prop_map(|(r, g, b)| Some(ColorSpec::Css(format!("#{:02X}{:02x}{:02x}", r, g, b)))),
            2 => (140u8..=255, 140u8..=255, 140u8..=255).prop_map(|(r, g, b)| Some(ColorSpec::Rgba([r, g, b, 0]))),
            1 => (140u8..=255, 140u8..=255, 140u8..=255, prop_oneof![4 => 60u8..200, 1 => 1u8..60, 1 => 200u8..255]).prop_map(|(r, g, b, a)| Some(ColorSpec::Rgba([r, g, b, a]))),
        ],
    )
        .boxed()
}

/// fit request for a symbol of total side s (modules incl. margin), keeping the pixmap below ~1400 px
fn fit_strategy(s: usize) -> BoxedStrategy<Fit> {
    let s32 = s as u32;
    let kmax = (1400 / s32).max(1);
    let k_int = (1u32..=kmax.min(7)).boxed();
    let lo = 4 * s32;
    let hi = (lo + 1).max((kmax * s32).min(lo + 400));
    prop_oneof![
        2 => Just(Fit::Original),
        2 => k_int.clone().prop_map(move |k| Fit::Width(k * s32)),
        1 => k_int.clone().prop_map(move |k| Fit::Height(k * s32)),
        2 => (lo..=hi).prop_map(Fit::Width),
        1 => (lo..=hi).prop_map(Fit::Height),
        2 => (lo..=hi, lo..=hi).prop_map(|(w, h)| Fit::Both(w, h)),
        1 => (s32..=lo).prop_map(Fit::Width),
        // requests smaller than the symbol (less than one pixel per module): only size, squareness and the PNG round trip apply
        1 => prop_oneof![(1u32..=s32).prop_map(Fit::Width), (1u32..=s32).prop_map(Fit::Height), (1u32..=s32, lo..=hi).prop_map(|(a, b)| Fit::Both(a, b)), (1u32..=s32, lo..=hi).prop_map(|(a, b)| Fit::Both(b, a))],
        1 => (k_int, 0u32..300).prop_map(move |(k, extra)| Fit::Both(k * s32 + extra, k * s32)),
    ]
    .boxed()
}

pub fn case_strategy(versions: &'static [usize]) -> BoxedStrategy<Case> {
    (
        proptest::sample::select(versions),
        0usize..4,
        prop_oneof![2 => Just(None), 1 => Just(Some(0usize)), 1 => Just(Some(1usize)), 1 => Just(Some(4usize)), 1 => (0usize..8).prop_map(Some)],
        prop_oneof![1 => Just(None), 5 => (0usize..6).prop_map(Some)],
        colours(),
        prop_oneof![Just(None), (0u8..8).prop_map(Some)],
        warm_strategy(),
        any::<bool>(),
        prop_oneof![5 => Just(0u8), 2 => 1u8..=4],
        // layers UNDER the one whose colour must show: 0..=2, opaque, colours from a small palette (so that a colour
        // can re-appear: A, B, A) or the module colour
        prop_oneof![3 => Just(Vec::new()), 2 => proptest::collection::vec((0usize..6, 0usize..4), 1..=2)],
        // an embedded image (a real PNG as data URI) in a square frame, default placement or fractional size / gap / position
        prop_oneof![4 => Just(None), 1 => (prop_oneof![1 => Just(None), 2 => (2u32..24).prop_map(|x| Some(x as f64 / 4.0 + 1.0))], prop_oneof![1 => Just(None), 2 => (0u32..16).prop_map(|x| Some(x as f64 / 5.0))], prop_oneof![2 => Just(None), 1 => (8u32..60, 8u32..60).prop_map(|(x, y)| Some((x as f64 / 4.0, y as f64 / 4.0)))]).prop_map(Some)],
    )
        .prop_flat_map(|(v, li, margin, shape, (mc, bg), mask, warm, layer_explicit, pred, under, img)| {
            let cell = Cell { version: v, level: Level::from_index(li), mode: Mode::Byte };
            let s = size(v) + 2 * margin.unwrap_or(4);
            let pre = prop_oneof![3 => Just(Vec::new()), 2 => proptest::collection::vec((fit_strategy(s), any::<bool>()), 1..3)];
            (case_in_cell(cell, Force { mode: false, level: true, version: true }, mask), fit_strategy(s), 0u8..4, pre).prop_map(move |((build, _), fit, fit_order, pre_fits)| Case {
                fit_order,
                pre_fits,
                build,
                cfg: {
                    const PALETTE: [[u8; 3]; 3] = [[200, 30, 30], [30, 30, 200], [20, 110, 20]];
                    let top: Vec<(usize, Option<ColorSpec>)> = shape.map(|s| vec![(s, if layer_explicit { mc.clone() } else { None })]).unwrap_or_default();
                    let mut layers: Vec<(usize, Option<ColorSpec>)> = Vec::new();
                    if !top.is_empty() {
                        for (us, uc) in under.iter() {
                            // palette entry 3 = "same colour as the top layer" (explicit or through the module colour)
                            layers.push((*us, if *uc == 3 { top[0].1.clone() } else { Some(ColorSpec::Rgb(PALETTE[*uc])) }));
                        }
                    }
                    layers.extend(top);
                    let mut cfg = SvgCfg { margin, layers, module_color: if layer_explicit && shape.is_some() { None } else { mc.clone() }, background: bg.clone(), warm, pred, ..SvgCfg::default() };
                    if let Some((sz, gap, pos)) = img {
                        cfg.image = Some(super::c18::solid_png_uri([0, 170, 60]));
                        cfg.image_bg_shape = Some(0);
                        cfg.image_bg_color = Some(ColorSpec::Rgb([250, 240, 20]));
                        cfg.image_size = sz;
                        cfg.image_gap = gap;
                        cfg.image_position = pos;
                    }
                    cfg
                },
                fit,
            })
        })
        .boxed()
}

static QUICK_VERSIONS: [usize; 9] = [1, 1, 2, 2, 3, 7, 14, 21, 27];
static ALL_VERSIONS: [usize; 40] = [1, 2, 3, 4, 5, 6, 7, 8, 9, 10, 11, 12, 13, 14, 15, 16, 17, 18, 19, 20, 21, 22, 23, 24, 25, 26, 27, 28, 29, 30, 31, 32, 33, 34, 35, 36, 37, 38, 39, 40];

pub fn run(e: &'static Engine) {
    e.set_rule(
        "Enumerated: 6 shapes x versions {1, 2, 7, 14, 21, 27, 32, 40} (thorough: all 40) x margins {0, 1, 4} at original scale and \
         at 4 px/module (V32/V40: original scale and k=4 for two shapes). Generated: version x level x margin x shape x \
         (opaque module colour, background opaque / fully transparent / partially transparent) x fit in {original, width = k*S, \
         height = k*S, non-multiple width/height/both >= 4 px per module, width between 1 and 4 px per module, both with w != h}. \
         Oracle: pixmap is a square of the predicted side (S = size + 2 x margin at original scale, the requested width/height, \
         min(w, h) for both); Square shape at integer scale: every pixel of every cell equals module colour (dark) or background \
         (light and quiet zone); any shape at >= 4 px/module: the pixel at floor((c+m+.5)k), floor((r+m+.5)k) likewise; png crate \
         decodes to_bytes() to the same width/height/RGBA as the pixmap (un-premultiplied; +-2/255 only for partially transparent \
         backgrounds). Non-trivial: non-default shape or fit or margin or non-opaque background; distinct by case hash.",
    );
    e.extend_rule("part wide_margins (module coordinates on 10^k / 2^k boundaries up to 1100); fits below the symbol size (size and PNG round trip only); 0..2 opaque layers under the top layer from a three-colour palette (the top layer's colour must show; every-pixel rule only when all layers are plain squares); renderer warm-up (perturbing every last-value-wins option, possibly before the last layer exists) and thread predecessors (multi-layer render, failing render); cases with an embedded image in a square frame (default or fractional size / gap / position): cells touching frame or image are exempt from the every-pixel rule, cells whose centre is within a quarter module of them from the centre rule.");
    e.assume("resvg/usvg/tiny-skia are part of the pipeline under test; png crate decoder is trusted");
    e.assume("non-square shapes are asserted only at >= 4 px per module, as the property states; fit_*(0) is outside the domain");
    crate::engine::run_regress(e, &|c, o| replay(e, c, o));
    let mut jobs: Vec<Job> = Vec::new();
    let versions: Vec<usize> = if e.tier == Tier::Thorough { (1..=40).collect() } else { vec![1, 2, 7, 14, 21, 27, 32, 40] };
    for &v in versions.iter() {
        for shape in 0..6usize {
            jobs.push(Box::new(move |jc: &mut JobCtx| {
                let margins: &[usize] = if v >= 32 && jc.engine.tier == Tier::Quick { &[1] } else { &[0, 1, 4] };
                for (mi, &m) in margins.iter().enumerate() {
                    let s = (size(v) + 2 * m) as u32;
                    let fits: Vec<Fit> = if v >= 32 && jc.engine.tier == Tier::Quick {
                        if shape % 3 == 0 { vec![Fit::Width(4 * s)] } else { vec![Fit::Original] }
                    } else {
                        vec![Fit::Original, Fit::Width(4 * s)]
                    };
                    for (fi, fit) in fits.into_iter().enumerate() {
                        let cell = Cell { version: v, level: Level::from_index((v + shape) % 4), mode: Mode::Byte };
                        let strat = case_in_cell(cell, Force { mode: false, level: true, version: true }, None).prop_map(move |(build, _)| Case {
                            fit_order: 0,
                            pre_fits: Vec::new(),
                            build,
                            cfg: SvgCfg { margin: Some(m), layers: vec![(shape, None)], ..SvgCfg::default() },
                            fit,
                        });
                        jc.run_prop((mi * 4 + fi) as u64 + 1, &strat, 1, to_json, |c, o| {
                            o.label("part:enumerated");
                            check(c, o)
                        });
                    }
                }
            }));
        }
    }
    e.par(jobs);
    let total: u32 = e.tier.pick(640, 9600);
    let shards = e.tier.pick(32u32, 96);
    let mut jobs: Vec<Job> = Vec::new();
    for _ in 0..shards {
        jobs.push(Box::new(move |jc: &mut JobCtx| {
            let strat = case_strategy(if jc.engine.tier == Tier::Thorough { &ALL_VERSIONS } else { &QUICK_VERSIONS });
            jc.run_prop(1 << 20, &strat, total / shards, to_json, |c, o| {
                o.label("part:generated");
                check(c, o)
            });
        }));
    }
    e.par(jobs);
    // large symbols with steered content (whole dark rows crossing the 64- and 128-column marks, long runs, uniform
    // rectangles) rendered with the square shape at 1 and 2 pixels per module: every pixel is compared
    let total: u32 = e.tier.pick(96, 1920);
    let mut jobs: Vec<Job> = Vec::new();
    for _ in 0..shards {
        jobs.push(Box::new(move |jc: &mut JobCtx| {
            let strat = (crate::gens::steered_case(26, 40, true), prop_oneof![Just(None), Just(Some(0usize))], any::<bool>(), any::<bool>()).prop_map(|((build, _), shape, twice, explicit)| {
                let v = build.opts.version.unwrap_or(40);
                let s = (size(v) + 8) as u32;
                Case {
                    build,
                    cfg: SvgCfg { layers: shape.map(|s| vec![(s, if explicit { Some(ColorSpec::Rgb([0, 0, 0])) } else { None })]).unwrap_or_default(), ..SvgCfg::default() },
                    fit: if twice { Fit::Width(2 * s) } else { Fit::Original },
                    fit_order: 0,
                    pre_fits: Vec::new(),
                }
            });
            jc.run_prop(3 << 20, &strat, (total / shards).max(1), to_json, |c, o| {
                o.label("part:steered_large");
                check(c, o)
            });
        }));
    }
    e.par(jobs);
    // the same for small and medium symbols (cheap renders, many more cases): machine-word edge patterns, runs and lines
    let total: u32 = e.tier.pick(1920, 9600);
    let mut jobs: Vec<Job> = Vec::new();
    for _ in 0..shards {
        jobs.push(Box::new(move |jc: &mut JobCtx| {
            let strat = (crate::gens::steered_case(4, 16, true), prop_oneof![Just(None), Just(Some(0usize))], any::<bool>()).prop_map(|((build, _), shape, twice)| {
                let v = build.opts.version.unwrap_or(10);
                let s = (size(v) + 8) as u32;
                Case {
                    build,
                    cfg: SvgCfg { layers: shape.map(|s| vec![(s, None)]).unwrap_or_default(), ..SvgCfg::default() },
                    fit: if twice { Fit::Width(2 * s) } else { Fit::Original },
                    fit_order: 0,
                    pre_fits: Vec::new(),
                }
            });
            jc.run_prop(5 << 20, &strat, (total / shards).max(1), to_json, |c, o| {
                o.label("part:steered_medium");
                check(c, o)
            });
        }));
    }
    e.par(jobs);
    // wide margins: module coordinates on 10^k / 2^k boundaries (10, 100, 128, 256, 512, 1000, 1024), small symbols,
    // every shape, original scale (square shape: every pixel compared)
    let total: u32 = e.tier.pick(48, 960);
    let mut jobs: Vec<Job> = Vec::new();
    for _ in 0..shards {
        jobs.push(Box::new(move |jc: &mut JobCtx| {
            let strat = (1usize..=3, 0usize..4, crate::svgcase::boundary_margin(1100), prop_oneof![1 => Just(None), 5 => (0usize..6).prop_map(Some)], prop_oneof![Just(None), (0u8..8).prop_map(Some)], any::<bool>())
                .prop_flat_map(|(v, li, margin, shape, mask, double)| {
                    let cell = Cell { version: v, level: Level::from_index(li), mode: Mode::Byte };
                    case_in_cell(cell, Force { mode: false, level: true, version: true }, mask).prop_map(move |(build, _)| {
                        let s = (size(v) + 2 * margin) as u32;
                        Case {
                            build,
                            cfg: SvgCfg { margin: Some(margin), layers: shape.map(|s| vec![(s, None)]).unwrap_or_default(), ..SvgCfg::default() },
                            fit: if double && s <= 700 { Fit::Width(2 * s) } else { Fit::Original },
                            fit_order: 0,
                            pre_fits: Vec::new(),
                        }
                    })
                });
            jc.run_prop(4 << 20, &strat, (total / shards).max(1), to_json, |c, o| {
                o.label("part:wide_margins");
                check(c, o)
            });
        }));
    }
    e.par(jobs);
    e.set_exhaustive(false, "6 shapes x the listed versions x margins {0,1,4} are enumerated; colours, fits and payloads are sampled");
}
