//! C10 — building is total: Ok or a documented Err, never a panic, overflow or hang.

use crate::engine::{fail, hex, panic_sig, Engine, Fail, Job, JobCtx, Obs, verif_dir};
use crate::fq::{build, BuildCase, BuildErr, Opts};
use crate::gens::pick;
use proptest::collection::vec;
use proptest::prelude::*;
use refmodel::tables::*;
use serde_json::{json, Value};

pub fn check(bc: &BuildCase, fam: &str, obs: &mut Obs) -> Result<(), Fail> {
    let r = build(bc).map_err(|p| {
        if p.starts_with("error variant") {
            Fail { sig: "undocumented_error".into(), msg: format!("{} ({:?})", p, bc) }
        } else {
            Fail { sig: panic_sig(&p), msg: format!("build panicked: {} ({:?})", p, bc) }
        }
    })?;
    let mode = bc.effective_mode();
    let level = bc.effective_level();
    let near = (1..=40).any(|v| {
        let cap = capacity(v, level, mode);
        bc.input.len() + 2 >= cap && bc.input.len() <= cap + 2
    });
    obs.label(&format!("family:{}", fam));
    obs.label(&format!("forced_mode:{}", bc.opts.mode.map(|m| m.name()).unwrap_or("auto")));
    obs.label(&format!("forced_version:{}", bc.opts.version.is_some()));
    obs.label(match bc.input.len() {
        0 => "len:0",
        1..=99 => "len:1-99",
        100..=999 => "len:100-999",
        1000..=2999 => "len:1000-2999",
        3000..=7089 => "len:3000-7089",
        _ => "len:>7089",
    });
    match &r {
        Ok(b) => {
            // a returned symbol has a legal size and Some fields (anything deeper is other properties' business)
            if version_from_size(b.size()).is_none() {
                return fail("bad_symbol", format!("returned a symbol of size {} ({:?})", b.size(), bc));
            }
            obs.label("result:ok");
            obs.nontrivial(bc.hash());
        }
        Err(BuildErr::TooBig) => {
            obs.label("result:err_too_big");
            if near {
                obs.nontrivial(bc.hash());
            }
        }
        Err(BuildErr::VersionTooSmall) => {
            obs.label("result:err_version_too_small");
            if near {
                obs.nontrivial(bc.hash());
            }
        }
        Err(BuildErr::Panicked) => unreachable!("fq::build reports panics as the outer Err"),
    }
    obs.sample(&format!("{}|{}", fam, if r.is_ok() { "ok" } else { "err" }), || bc.to_sample());
    Ok(())
}

pub fn replay(_e: &Engine, case: &Value, obs: &mut Obs) -> Result<(), Fail> {
    let b = BuildCase::from_json(case).ok_or_else(|| Fail { sig: "bad_replay".into(), msg: "cannot parse case".into() })?;
    check(&b, "replay", obs)
}

/// Termination is part of the property. A case that exceeds the watchdog (nominal cost ~2 ms) is re-run twice in an
/// isolated child process; only a hang reproduced both times is a violation, anything else is inconclusive.
pub fn on_timeout(e: &Engine, hung: &[Value]) {
    let exe = std::env::current_exe().expect("current_exe");
    for case in hung {
        if case.is_null() {
            continue;
        }
        let dir = format!("{}/replays/{}", verif_dir(), e.id);
        let _ = std::fs::create_dir_all(&dir);
        let path = format!("{}/hang-{:016x}.json", dir, crate::engine::hash_value(case));
        let doc = json!({"property": e.id, "format": 1, "case": case, "signature": "hang", "observed": "build did not return within the watchdog limit"});
        let _ = std::fs::write(&path, serde_json::to_string_pretty(&doc).unwrap());
        let mut hangs = 0;
        for _ in 0..2 {
            let st = std::process::Command::new("timeout").arg("120").arg(&exe).arg(e.id).arg("--replay").arg(&path).stdout(std::process::Stdio::null()).status();
            if let Ok(s) = st {
                if s.code() == Some(124) {
                    hangs += 1;
                }
            }
        }
        if hangs == 2 {
            println!("VIOLATION property={} replay={}", e.id, path);
            println!("  detail: build does not terminate (reproduced twice in an isolated process, 120 s each; nominal cost ~2 ms)");
            std::process::exit(1);
        }
    }
    println!("INCONCLUSIVE property={} a case exceeded the watchdog limit but did not reproduce as a hang in isolation", e.id);
    std::process::exit(2);
}

fn alphabet_map(mode: Mode, raw: Vec<u8>) -> Vec<u8> {
    match mode {
        Mode::Numeric => raw.into_iter().map(|b| b'0' + ((b as usize * 10) >> 8) as u8).collect(),
        Mode::Alphanumeric => raw.into_iter().map(|b| ALNUM_SET[(b as usize * 45) >> 8]).collect(),
        Mode::Byte => raw,
    }
}

fn raw_bytes(len: usize) -> BoxedStrategy<(Vec<u8>, &'static str)> {
    prop_oneof![
        5 => vec(any::<u8>(), len).prop_map(|v| (v, "uniform")),
        1 => Just((vec![0u8; len], "all_zero")),
        1 => Just((vec![0xFFu8; len], "all_ff")),
        1 => Just(((0..len).map(|i| if i % 2 == 0 { 0xEC } else { 0x11 }).collect(), "pad_lookalike")),
        1 => vec(b'0'..=b'9', len).prop_map(|v| (v, "digits")),
        1 => vec(0usize..45, len).prop_map(|v| (v.into_iter().map(|i| ALNUM_SET[i]).collect(), "alnum")),
        1 => vec(32u8..127, len).prop_map(|v| (v, "printable")),
        1 => crate::gens::with_token(vec(32u8..127, len).boxed()).prop_map(|v| (v, "with_token")),
        1 => crate::gens::class_runs_of(len).prop_map(|v| (v, "class_runs")),
    ]
    .boxed()
}

fn any_len() -> BoxedStrategy<usize> {
    prop_oneof![
        // log-uniform 0..8000
        4 => (0u32..13, any::<u16>()).prop_map(|(e, f)| { let hi = 1usize << e; ((hi - 1) + pick(f, hi)).min(8000) }),
        // capacity boundaries +-2 of a random cell
        4 => (0usize..480, 0usize..5).prop_map(|(ci, d)| (crate::gens::Cell::from_index(ci).cap() + d).saturating_sub(2)),
        1 => prop_oneof![Just(7089usize), Just(7090), Just(7088), Just(4296), Just(4297), Just(2953), Just(2954), Just(8000), Just(0), Just(1)],
        1 => 0usize..=8000,
        // far beyond capacity, around the places where a narrowed length would wrap into range
        1 => (prop_oneof![Just(65_536usize), Just(131_072), Just(65_535), Just(262_144)], 0usize..7200).prop_map(|(b, k)| b + k),
        1 => prop_oneof![Just(65_535usize), Just(65_536), Just(65_537), Just(70_000), Just(1usize << 20)],
    ]
    .boxed()
}

pub fn case_strategy() -> BoxedStrategy<(BuildCase, &'static str)> {
    (
        any_len(),
        prop_oneof![2 => Just(None), 1 => (0usize..3).prop_map(|i| Some(Mode::from_index(i)))],
        prop_oneof![1 => Just(None), 3 => (0usize..4).prop_map(|i| Some(Level::from_index(i)))],
        prop_oneof![2 => Just(None), 2 => (1usize..=40).prop_map(Some), 1 => Just(Some(40)), 1 => Just(Some(1))],
        prop_oneof![1 => Just(None), 1 => (0u8..8).prop_map(Some)],
    )
        .prop_flat_map(|(len, mode, level, version, mask)| {
            (raw_bytes(len), any::<u16>()).prop_map(move |((raw, fam), warm_sel)| {
                let input = match mode {
                    Some(m) => alphabet_map(m, raw),
                    None => raw,
                };
                (BuildCase::new(input, Opts { mode, level, version, mask }).with_warm_sel(warm_sel), fam)
            })
        })
        .boxed()
}

pub fn run(e: &'static Engine) {
    e.set_rule(
        "Generated: arbitrary byte strings of length 0..8000 (log-uniform, every capacity boundary +-2, 7089/7090, uniform) from the \
         families uniform / all-zero / all-0xFF / pad look-alike / digits / alnum / printable x every combination of forced or \
         automatic mode, level, version, mask; a forced mode only ever receives input mapped into its alphabet (b*|A|>>8), so the \
         documented 'unexpected character' panic is outside the domain by construction. Plus, enumerated, every capacity boundary \
         cap-1, cap, cap+1 of all 480 cells with forced mode and automatic version, and with the version forced to the cell's. \
         Oracle: catch_unwind => no panic (bounds, overflow, debug assertions are enabled in the harness profile); result is Ok or \
         one of the two documented errors (by match and Display text); per-case watchdog 120 s with re-run in a child process for \
         termination. Non-trivial: Ok, or an error within +-2 characters of a capacity boundary; distinct by case hash.",
    );
    e.extend_rule("lengths around 2^16..2^20; special tokens and class runs among the raw strings; predecessors that panic or fail; extreme textures; block look-alikes.");
    e.assume("harness profile: opt-level 2 with debug-assertions, overflow-checks and panic=unwind applied to fast_qr");
    crate::engine::run_regress(e, &|c, o| replay(e, c, o));
    // enumerated boundaries
    let mut jobs: Vec<Job> = Vec::new();
    for v in 1..=40usize {
        jobs.push(Box::new(move |jc: &mut JobCtx| {
            for &level in LEVELS.iter() {
                for &mode in MODES.iter() {
                    let cap = capacity(v, level, mode);
                    for (k, len) in [cap - 1, cap, cap + 1].into_iter().enumerate() {
                        for fv in [None, Some(v)] {
                            let raw: Vec<u8> = (0..len).map(|i| (i * 89 + v * 7 + k) as u8).collect();
                            let bc = BuildCase::new(alphabet_map(mode, raw), Opts { mode: Some(mode), level: Some(level), version: fv, mask: None });
                            jc.engine.set_current_case(bc.to_json());
                            jc.run_case(&bc, |c| c.to_json(), |c, o| {
                                o.label("part:enumerated_boundaries");
                                check(c, "boundary", o)
                            });
                        }
                    }
                }
            }
        }));
    }
    e.par(jobs);
    let total: u32 = e.tier.pick(25_600, 400_000);
    let shards = e.tier.pick(32u32, 128);
    let mut jobs: Vec<Job> = Vec::new();
    for _ in 0..shards {
        jobs.push(Box::new(move |jc: &mut JobCtx| {
            let strat = case_strategy();
            jc.run_prop(1 << 20, &strat, total / shards, |(c, _)| c.to_json(), |(c, fam), o| {
                jc.engine.set_current_case(c.to_json());
                o.label("part:generated");
                check(c, fam, o)
            });
        }));
    }
    e.par(jobs);
    super::common::standard_parts(e, 24000, 256000, check);
    let _ = hex(&[]);
    e.set_exhaustive(false, "option combinations and capacity boundaries are covered systematically; byte strings are sampled");
}
