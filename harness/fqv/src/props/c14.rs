//! C14 — building and rendering are pure functions of input and final options: any setter history,
//! any reuse of builders, any other builds in between, any number of threads.

use crate::engine::{catch, fail, hash_bytes, hex, panic_sig, unhex, Engine, Fail, Job, JobCtx, Obs};
use crate::ensure;
use crate::fq::{f_level, f_mask, f_mode, f_version, short_bytes, BuildCase, Opts};
use crate::gens::{payload, pick};
use crate::svgcase::*;
use fast_qr::convert::image::ImageBuilder;
use fast_qr::convert::svg::SvgBuilder;
use fast_qr::convert::Builder;
use fast_qr::{QRBuilder, QRCode};
use proptest::collection::vec;
use proptest::prelude::*;
use refmodel::tables::*;
use serde_json::{json, Value};

#[derive(Clone, Debug, PartialEq)]
pub enum SvgOp {
    Margin(usize),
    ModuleColor(ColorSpec),
    Background(ColorSpec),
    Shape(usize, Option<ColorSpec>),
    Image(String),
    ImageBgColor(ColorSpec),
    ImageBgShape(usize),
    ImageSize(f64),
    ImageGap(f64),
    ImagePosition(f64, f64),
}

fn apply_svg_op<B: Builder>(b: &mut B, op: &SvgOp) {
    // route every call through a one-field SvgCfg so that the colour-type dispatch is shared
    let mut c = SvgCfg::default();
    match op {
        SvgOp::Margin(m) => c.margin = Some(*m),
        SvgOp::ModuleColor(x) => c.module_color = Some(x.clone()),
        SvgOp::Background(x) => c.background = Some(x.clone()),
        SvgOp::Shape(s, col) => c.layers.push((*s, col.clone())),
        SvgOp::Image(s) => c.image = Some(s.clone()),
        SvgOp::ImageBgColor(x) => c.image_bg_color = Some(x.clone()),
        SvgOp::ImageBgShape(s) => c.image_bg_shape = Some(*s),
        SvgOp::ImageSize(s) => c.image_size = Some(*s),
        SvgOp::ImageGap(g) => c.image_gap = Some(*g),
        SvgOp::ImagePosition(x, y) => c.image_position = Some((*x, *y)),
    }
    c.apply(b);
}

/// model: scalar options last-value-wins; shape calls are an ordered list by design
fn fold_svg(ops: &[SvgOp]) -> SvgCfg {
    let mut c = SvgCfg::default();
    for op in ops {
        match op {
            SvgOp::Margin(m) => c.margin = Some(*m),
            SvgOp::ModuleColor(x) => c.module_color = Some(x.clone()),
            SvgOp::Background(x) => c.background = Some(x.clone()),
            SvgOp::Shape(s, col) => c.layers.push((*s, col.clone())),
            SvgOp::Image(s) => c.image = Some(s.clone()),
            SvgOp::ImageBgColor(x) => c.image_bg_color = Some(x.clone()),
            SvgOp::ImageBgShape(s) => c.image_bg_shape = Some(*s),
            SvgOp::ImageSize(s) => c.image_size = Some(*s),
            SvgOp::ImageGap(g) => c.image_gap = Some(*g),
            SvgOp::ImagePosition(x, y) => c.image_position = Some((*x, *y)),
        }
    }
    c
}

fn svg_op_json(op: &SvgOp) -> Value {
    match op {
        SvgOp::Margin(m) => json!({"margin": m}),
        SvgOp::ModuleColor(c) => json!({"module_color": c.to_json()}),
        SvgOp::Background(c) => json!({"background": c.to_json()}),
        SvgOp::Shape(s, c) => json!({"shape": SHAPE_NAMES[*s], "color": c.as_ref().map(|c| c.to_json())}),
        SvgOp::Image(s) => json!({"image": s}),
        SvgOp::ImageBgColor(c) => json!({"image_bg_color": c.to_json()}),
        SvgOp::ImageBgShape(s) => json!({"image_bg_shape": BG_SHAPE_NAMES[*s]}),
        SvgOp::ImageSize(s) => json!({"image_size": s}),
        SvgOp::ImageGap(g) => json!({"image_gap": g}),
        SvgOp::ImagePosition(x, y) => json!({"image_position": [x, y]}),
    }
}

fn svg_op_from(v: &Value) -> Option<SvgOp> {
    if let Some(m) = v.get("margin") {
        return Some(SvgOp::Margin(m.as_u64()? as usize));
    }
    if let Some(c) = v.get("module_color") {
        return Some(SvgOp::ModuleColor(ColorSpec::from_json(c)?));
    }
    if let Some(c) = v.get("background") {
        return Some(SvgOp::Background(ColorSpec::from_json(c)?));
    }
    if let Some(s) = v.get("shape") {
        let si = SHAPE_NAMES.iter().position(|n| Some(*n) == s.as_str())?;
        return Some(SvgOp::Shape(si, v.get("color").filter(|x| !x.is_null()).and_then(ColorSpec::from_json)));
    }
    if let Some(s) = v.get("image") {
        return Some(SvgOp::Image(s.as_str()?.to_string()));
    }
    if let Some(c) = v.get("image_bg_color") {
        return Some(SvgOp::ImageBgColor(ColorSpec::from_json(c)?));
    }
    if let Some(s) = v.get("image_bg_shape") {
        return Some(SvgOp::ImageBgShape(BG_SHAPE_NAMES.iter().position(|n| Some(*n) == s.as_str())?));
    }
    if let Some(s) = v.get("image_size") {
        return Some(SvgOp::ImageSize(s.as_f64()?));
    }
    if let Some(s) = v.get("image_gap") {
        return Some(SvgOp::ImageGap(s.as_f64()?));
    }
    if let Some(a) = v.get("image_position").and_then(|x| x.as_array()) {
        return Some(SvgOp::ImagePosition(a.get(0)?.as_f64()?, a.get(1)?.as_f64()?));
    }
    None
}

#[derive(Clone, Debug, PartialEq)]
pub enum Op {
    SetMode(Mode),
    SetEcl(Level),
    SetVersion(usize),
    SetMask(u8),
    Build,
    BuildOther(BuildCase),
    RenderText,
    RenderSvg(Vec<SvgOp>),
    RenderPng(Vec<SvgOp>),
    /// setter call on the renderer instances that live as long as the history (one SvgBuilder, one ImageBuilder)
    PSet(SvgOp),
    /// render the current QR code with the long-lived SvgBuilder / ImageBuilder
    PRenderSvg,
    PRenderPng,
    /// a call of the public (doc-hidden) `datamasking::mask` on a blank matrix of the given version's width
    ForeignMask(usize, u8),
    /// the shared builder is built this many times in a row (counts around 2^8 / 2^10; short inputs only), and the
    /// long-lived SvgBuilder renders the result as often: every result equals the first and a fresh object's
    Repeat(u16),
    /// a rendering that FAILS: a fresh renderer (0 text, 1 SVG, 2 PNG) is given a hand-made QRCode value of an
    /// impossible size; the call panics and the panic is caught, as a thread pool or a web server would
    FailingRender(u8),
}

#[derive(Clone, Debug)]
pub struct History {
    pub input: Vec<u8>,
    pub ops: Vec<Op>,
}

fn op_json(op: &Op) -> Value {
    match op {
        Op::SetMode(m) => json!({"set_mode": m.name()}),
        Op::SetEcl(l) => json!({"set_ecl": l.name()}),
        Op::SetVersion(v) => json!({"set_version": v}),
        Op::SetMask(m) => json!({"set_mask": m}),
        Op::Build => json!("build"),
        Op::BuildOther(b) => json!({"build_other": b.to_json()}),
        Op::RenderText => json!("render_text"),
        Op::RenderSvg(p) => json!({"render_svg": p.iter().map(svg_op_json).collect::<Vec<_>>()}),
        Op::RenderPng(p) => json!({"render_png": p.iter().map(svg_op_json).collect::<Vec<_>>()}),
        Op::PSet(o) => json!({"p_set": svg_op_json(o)}),
        Op::PRenderSvg => json!("p_render_svg"),
        Op::PRenderPng => json!("p_render_png"),
        Op::ForeignMask(v, k) => json!({"foreign_mask": [v, k]}),
        Op::Repeat(n) => json!({"repeat": n}),
        Op::FailingRender(k) => json!({"failing_render": k}),
    }
}

fn op_from(v: &Value) -> Option<Op> {
    if v.as_str() == Some("build") {
        return Some(Op::Build);
    }
    if v.as_str() == Some("render_text") {
        return Some(Op::RenderText);
    }
    if v.as_str() == Some("p_render_svg") {
        return Some(Op::PRenderSvg);
    }
    if v.as_str() == Some("p_render_png") {
        return Some(Op::PRenderPng);
    }
    if let Some(k) = v.get("failing_render").and_then(|x| x.as_u64()) {
        return Some(Op::FailingRender(k as u8));
    }
    if let Some(n) = v.get("repeat").and_then(|x| x.as_u64()) {
        return Some(Op::Repeat(n as u16));
    }
    if let Some(a) = v.get("foreign_mask").and_then(|x| x.as_array()) {
        return Some(Op::ForeignMask(a.first()?.as_u64()? as usize, a.get(1)?.as_u64()? as u8));
    }
    if let Some(o) = v.get("p_set") {
        return Some(Op::PSet(svg_op_from(o)?));
    }
    if let Some(m) = v.get("set_mode").and_then(|x| x.as_str()) {
        return Some(Op::SetMode(match m {
            "Numeric" => Mode::Numeric,
            "Alphanumeric" => Mode::Alphanumeric,
            _ => Mode::Byte,
        }));
    }
    if let Some(l) = v.get("set_ecl").and_then(|x| x.as_str()) {
        return Some(Op::SetEcl(match l {
            "L" => Level::L,
            "M" => Level::M,
            "Q" => Level::Q,
            _ => Level::H,
        }));
    }
    if let Some(x) = v.get("set_version").and_then(|x| x.as_u64()) {
        return Some(Op::SetVersion(x as usize));
    }
    if let Some(x) = v.get("set_mask").and_then(|x| x.as_u64()) {
        return Some(Op::SetMask(x as u8));
    }
    if let Some(b) = v.get("build_other") {
        return Some(Op::BuildOther(BuildCase::from_json(b)?));
    }
    if let Some(a) = v.get("render_svg").and_then(|x| x.as_array()) {
        return Some(Op::RenderSvg(a.iter().filter_map(svg_op_from).collect()));
    }
    if let Some(a) = v.get("render_png").and_then(|x| x.as_array()) {
        return Some(Op::RenderPng(a.iter().filter_map(svg_op_from).collect()));
    }
    None
}

pub fn hist_json(h: &History) -> Value {
    json!({"kind": "history", "input_hex": hex(&h.input), "input_preview": short_bytes(&h.input), "ops": h.ops.iter().map(op_json).collect::<Vec<_>>()})
}

/// Everything observable about a build result
#[derive(Clone, PartialEq, Eq)]
pub struct Snapshot {
    pub kind: u8,
    pub bytes: Vec<u8>,
    pub size: usize,
    pub fields: [i64; 4],
}

impl std::fmt::Debug for Snapshot {
    fn fmt(&self, f: &mut std::fmt::Formatter<'_>) -> std::fmt::Result {
        write!(f, "Snapshot{{kind={}, size={}, fields={:?}, data_hash={:016x}}}", self.kind, self.size, self.fields, hash_bytes(&self.bytes))
    }
}

pub fn snapshot(r: &Result<QRCode, fast_qr::qr::QRCodeError>) -> Snapshot {
    match r {
        Ok(q) => Snapshot {
            kind: 0,
            bytes: q.data.iter().map(|m| m.0).collect(),
            size: q.size,
            fields: [
                q.version.map(|v| v as i64).unwrap_or(-1),
                q.ecl.map(|v| v as i64).unwrap_or(-1),
                q.mask.map(|v| v as i64).unwrap_or(-1),
                q.mode.map(|v| v as i64).unwrap_or(-1),
            ],
        },
        Err(fast_qr::qr::QRCodeError::EncodedData) => Snapshot { kind: 1, bytes: vec![], size: 0, fields: [-1; 4] },
        Err(fast_qr::qr::QRCodeError::SpecifiedVersion) => Snapshot { kind: 2, bytes: vec![], size: 0, fields: [-1; 4] },
    }
}

/// snapshot of a build including "it panicked" as a result kind (whether it may panic is C10's question;
/// here only determinism matters)
fn snap_build(b: &QRBuilder) -> Snapshot {
    match catch(|| snapshot(&b.build())) {
        Ok(s) => s,
        Err(_) => Snapshot { kind: 3, bytes: vec![], size: 0, fields: [-1; 4] },
    }
}

fn fresh_build(input: &[u8], o: &Opts) -> QRBuilder {
    BuildCase::new(input.to_vec(), o.clone()).builder()
}

/// The same build on a brand-new thread: thread-local state left behind by the history cannot reach it.
fn fresh_thread_build(input: &[u8], o: &Opts) -> Snapshot {
    let bc = BuildCase::new(input.to_vec(), o.clone());
    std::thread::scope(|s| {
        std::thread::Builder::new()
            .stack_size(16 << 20)
            .spawn_scoped(s, move || snap_build(&bc.builder()))
            .expect("spawn")
            .join()
            .unwrap_or(Snapshot { kind: 3, bytes: vec![], size: 0, fields: [-1; 4] })
    })
}

fn snap_line(s: &Snapshot) -> String {
    format!("{} {} {} {} {} {} {:016x}", s.kind, s.size, s.fields[0], s.fields[1], s.fields[2], s.fields[3], hash_bytes(&s.bytes))
}

/// Child-process entry `fqv __cold <case.json>`: one build in a process that has never built anything.
pub fn cold_main(args: &[String]) -> ! {
    let text = std::fs::read_to_string(&args[0]).unwrap_or_default();
    let v: Value = serde_json::from_str(&text).unwrap_or(Value::Null);
    if let Some(kind) = v.get("render").and_then(|x| x.as_str()) {
        let bc = BuildCase::from_json(&v["build"]).unwrap_or_else(|| std::process::exit(3));
        let prog: Vec<SvgOp> = v["program"].as_array().map(|a| a.iter().filter_map(svg_op_from).collect()).unwrap_or_default();
        let h = catch(|| match bc.builder().build() {
            Ok(q) => render_hash(&q, kind, &prog),
            Err(_) => 1,
        })
        .unwrap_or(2);
        println!("COLD {:016x}", h);
        std::process::exit(0)
    }
    match BuildCase::from_json(&v) {
        Some(bc) => {
            println!("COLD {}", snap_line(&snap_build(&bc.builder())));
            std::process::exit(0)
        }
        None => std::process::exit(3),
    }
}

/// hash of one rendering of `q` by a fresh renderer given the program in call order
fn render_hash(q: &QRCode, kind: &str, prog: &[SvgOp]) -> u64 {
    match kind {
        "text" => hash_bytes(q.to_str().as_bytes()),
        "svg" => {
            let mut b = SvgBuilder::default();
            for op in prog {
                apply_svg_op(&mut b, op);
            }
            hash_bytes(b.to_str(q).as_bytes())
        }
        _ => {
            let mut b = ImageBuilder::default();
            for op in prog {
                apply_svg_op(&mut b, op);
            }
            match b.to_bytes(q) {
                Ok(p) => hash_bytes(&p),
                Err(_) => 3,
            }
        }
    }
}

fn cold_run(job: &Value) -> Option<String> {
    if std::env::var("FQV_IN_FUZZ").is_ok() {
        return None;
    }
    let exe = std::env::current_exe().ok()?;
    let k = COLD_SEQ.fetch_add(1, std::sync::atomic::Ordering::SeqCst);
    let path = std::env::temp_dir().join(format!("fqv-cold-{}-{}.json", std::process::id(), k));
    std::fs::write(&path, job.to_string()).ok()?;
    let mut cmd = std::process::Command::new(exe);
    cmd.arg("__cold").arg(&path);
    // Building and rendering depend on the input / QR code and the options only - not on the process environment. The
    // cold process therefore runs under an environment chosen from the job (locale, terminal, time zone, home
    // variables; or a completely empty environment), while this process keeps its own.
    let k = (hash_bytes(job.to_string().as_bytes()) % COLD_ENVS.len() as u64) as usize;
    match COLD_ENVS[k] {
        [("", "")] => {}
        [("-", "")] => {
            cmd.env_clear();
        }
        envs => {
            for (key, val) in envs {
                cmd.env(key, val);
            }
        }
    }
    let out = cmd.output().ok();
    let _ = std::fs::remove_file(&path);
    let out = out?;
    let text = String::from_utf8_lossy(&out.stdout);
    text.lines().find_map(|l| l.strip_prefix("COLD ").map(|x| x.to_string()))
}

/// A rendering made in this process (after whatever history) against the same rendering in a cold process.
fn cold_render_verdict(bc: &BuildCase, kind: &str, prog: &[SvgOp], warm_hash: u64, what: &str) -> Result<bool, Fail> {
    let job = json!({"build": bc.to_json(), "render": kind, "program": prog.iter().map(svg_op_json).collect::<Vec<_>>()});
    let Some(cold) = cold_run(&job) else { return Ok(false) };
    let w = format!("{:016x}", warm_hash);
    if cold != w {
        return fail(
            "render_history_dependent:differs_from_cold_process",
            format!("{}: {} rendering in this process hashes to {} but the same QR code and renderer options give {} in a fresh process ({:?}; program {})", what, kind, w, cold, bc, Value::Array(prog.iter().map(svg_op_json).collect())),
        );
    }
    Ok(true)
}

/// environments of the cold process: [("", "")] = inherited unchanged, [("-", "")] = empty
const COLD_ENVS: [&[(&str, &str)]; 12] = [
    &[("", "")],
    &[("-", "")],
    &[("LANG", "C"), ("LC_ALL", "C")],
    &[("LANG", "en_US.UTF-8"), ("LC_ALL", "en_US.UTF-8")],
    &[("LANG", "fr_FR.ISO-8859-1")],
    &[("LANG", "ja_JP.UTF-8"), ("LC_ALL", "ja_JP.eucJP")],
    &[("LANG", "en_US.UTF-8"), ("LC_CTYPE", "de_DE.ISO-8859-15@euro")],
    &[("LANG", "tr_TR.ISO-8859-9"), ("LANGUAGE", "tr")],
    &[("COLUMNS", "40"), ("LINES", "10"), ("TERM", "dumb"), ("NO_COLOR", "1")],
    &[("COLUMNS", "300"), ("LINES", "90"), ("TERM", "xterm-256color"), ("COLORTERM", "truecolor"), ("CLICOLOR_FORCE", "1")],
    &[("TZ", "Pacific/Kiritimati"), ("HOME", "/nonexistent"), ("USER", "nobody"), ("SOURCE_DATE_EPOCH", "0")],
    &[("RUST_BACKTRACE", "full"), ("RUST_LOG", "trace"), ("RAYON_NUM_THREADS", "1"), ("RUST_MIN_STACK", "16777216")],
];

static COLD_SEQ: std::sync::atomic::AtomicU64 = std::sync::atomic::AtomicU64::new(0);

/// Digest of the same build in a cold child process; None when no child can be run (inside a fuzz target)
fn cold_digest(bc: &BuildCase) -> Option<String> {
    if std::env::var("FQV_IN_FUZZ").is_ok() {
        return None;
    }
    let exe = std::env::current_exe().ok()?;
    let k = COLD_SEQ.fetch_add(1, std::sync::atomic::Ordering::SeqCst);
    let path = std::env::temp_dir().join(format!("fqv-cold-{}-{}.json", std::process::id(), k));
    std::fs::write(&path, bc.to_json().to_string()).ok()?;
    let mut cmd = std::process::Command::new(exe);
    cmd.arg("__cold").arg(&path);
    // Building and rendering depend on the input / QR code and the options only - not on the process environment. The
    // cold process therefore runs under an environment chosen from the job (locale, terminal, time zone, home
    // variables; or a completely empty environment), while this process keeps its own.
    let k = (hash_bytes(bc.to_json().to_string().as_bytes()) % COLD_ENVS.len() as u64) as usize;
    match COLD_ENVS[k] {
        [("", "")] => {}
        [("-", "")] => {
            cmd.env_clear();
        }
        envs => {
            for (key, val) in envs {
                cmd.env(key, val);
            }
        }
    }
    let out = cmd.output().ok();
    let _ = std::fs::remove_file(&path);
    let out = out?;
    let text = String::from_utf8_lossy(&out.stdout);
    text.lines().find_map(|l| l.strip_prefix("COLD ").map(|x| x.to_string()))
}

pub fn cleanup_cold_dir() {}

/// Does the result agree with the specification-level model (reference encoder for the values; reference capacity for
/// the result kind; reference penalty for an automatic mask)? A disagreement is not by itself a purity violation (it
/// may be another property's defect) but it is the trigger for asking a cold process.
fn agrees_with_spec(bc: &BuildCase, s: &Snapshot) -> bool {
    let mode = bc.effective_mode();
    if bc.opts.mode.is_some() && !in_alphabet(mode, &bc.input) {
        // a forced mode the input does not fit: the documented outcome is a panic (or an error from the capacity check
        // made before encoding); the specification model has nothing to say about symbols here
        return s.kind != 0;
    }
    let level = bc.effective_level();
    let min = min_version(level, mode, bc.input.len());
    let want_version = match (min, bc.opts.version) {
        (None, _) => return s.kind == 1,
        (Some(m), None) => m,
        (Some(m), Some(f)) if f >= m => f,
        _ => return s.kind == 2,
    };
    if s.kind != 0 || s.size != size(want_version) || s.fields[0] != want_version as i64 - 1 || !(0..8).contains(&s.fields[2]) {
        return false;
    }
    let mask = s.fields[2] as u8;
    if let Some(f) = bc.opts.mask {
        if f != mask {
            return false;
        }
    }
    let want = match refmodel::codec::build_symbol(mode, &bc.input, want_version, level, mask) {
        Ok(w) => w,
        Err(_) => return false,
    };
    let n = s.size;
    if s.bytes.len() < n * n || (0..n * n).any(|i| (s.bytes[i] & 1 == 1) != want[i]) {
        return false;
    }
    if bc.opts.mask.is_none() && n <= 57 {
        // automatic mask: minimal under the documented penalty (format area blank or own word, see C11)
        let g = refmodel::geom::geometry(want_version);
        let mut best_a = u32::MAX;
        let mut best_b = u32::MAX;
        let mut mine = (0, 0);
        for k in 0..8u8 {
            let mut m = refmodel::codec::build_symbol(mode, &bc.input, want_version, level, k).unwrap_or_default();
            let pb = refmodel::penalty::penalty(&m, want_version).total();
            for copy in 0..2 {
                for i in 0..15 {
                    let (r, c) = g.format_pos[copy][i];
                    m[r * n + c] = false;
                }
            }
            let pa = refmodel::penalty::penalty(&m, want_version).total();
            best_a = best_a.min(pa);
            best_b = best_b.min(pb);
            if k == mask {
                mine = (pa, pb);
            }
        }
        if mine.0 != best_a && mine.1 != best_b {
            return false;
        }
    }
    true
}

/// Purity verdict for one warm build against a cold process, asked only when needed. Ok(true) = cold process consulted.
fn cold_verdict(bc: &BuildCase, warm: &Snapshot, always: bool, what: &str) -> Result<bool, Fail> {
    if !always && agrees_with_spec(bc, warm) {
        return Ok(false);
    }
    let Some(cold) = cold_digest(bc) else { return Ok(false) };
    let w = snap_line(warm);
    if cold != w {
        return fail(
            "history_dependent:differs_from_cold_process",
            format!("{}: this process returns [{}] but a fresh process returns [{}] for the same input and options ({:?})", what, w, cold, bc),
        );
    }
    Ok(true)
}

fn pc<T>(what: &str, f: impl FnOnce() -> T) -> Result<T, Fail> {
    catch(f).map_err(|p| Fail { sig: panic_sig(&p), msg: format!("{} panicked: {}", what, p) })
}

pub fn check_history(h: &History, obs: &mut Obs) -> Result<(), Fail> {
    let mut shared = QRBuilder::new(h.input.clone());
    let mut model = Opts::default();
    let mut last: Option<Box<QRCode>> = None;
    let mut last_case: Option<BuildCase> = None;
    // long-lived renderer instances and the setter calls they have received so far
    let mut psvg = SvgBuilder::default();
    let mut ppng = ImageBuilder::default();
    let mut pprog: Vec<SvgOp> = Vec::new();
    let mut pprog_png: Vec<SvgOp> = Vec::new();
    let mut prenders = 0u64;
    let mut renders = 0u64;
    let mut builds = 0;
    let mut overwritten = 0;
    for (i, op) in h.ops.iter().enumerate() {
        match op {
            Op::SetMode(m) => {
                if model.mode.is_some() {
                    overwritten += 1;
                }
                model.mode = Some(*m);
                if !in_alphabet(*m, &h.input) {
                    obs.label("setter:mode_the_input_does_not_fit");
                    if *m == Mode::Alphanumeric && h.input.iter().all(|b| in_alphabet(Mode::Alphanumeric, &[b.to_ascii_uppercase()])) {
                        obs.label("setter:alphanumeric_on_input_that_fits_up_to_letter_case");
                    }
                }
                shared.mode(f_mode(*m));
            }
            Op::SetEcl(l) => {
                if model.level.is_some() {
                    overwritten += 1;
                }
                model.level = Some(*l);
                shared.ecl(f_level(*l));
            }
            Op::SetVersion(v) => {
                if model.version.is_some() {
                    overwritten += 1;
                }
                model.version = Some(*v);
                shared.version(f_version(*v));
            }
            Op::SetMask(m) => {
                if model.mask.is_some() {
                    overwritten += 1;
                }
                model.mask = Some(*m);
                shared.mask(f_mask(*m));
            }
            Op::BuildOther(bc) => {
                let a = snap_build(&bc.builder());
                if cold_verdict(bc, &a, false, &format!("op {} (other builder)", i))? {
                    obs.label("cold_process_consulted");
                }
            }
            Op::Build => {
                builds += 1;
                let a = snap_build(&shared);
                let again = snap_build(&shared);
                let fresh = snap_build(&fresh_build(&h.input, &model));
                let fresh_thread = fresh_thread_build(&h.input, &model);
                ensure!(
                    a == fresh_thread,
                    "history_dependent:fresh_thread",
                    "op {}: build after this history gives {:?}, the same build on a new thread gives {:?} (history {})",
                    i, a, fresh_thread, hist_json(h)
                );
                // specification-level reference, and a process that has never built anything
                let always = builds == 1 && hash_bytes(&h.input) % 8 == 0;
                if cold_verdict(&BuildCase::new(h.input.clone(), model.clone()), &a, always, &format!("op {}", i))? {
                    obs.label("cold_process_consulted");
                }
                ensure!(a == again, "rebuild_differs", "op {}: building twice on the same builder gives {:?} then {:?} (history {})", i, a, again, hist_json(h));
                if a != fresh {
                    let what = if a.kind != fresh.kind {
                        "result kind"
                    } else if a.fields != fresh.fields || a.size != fresh.size {
                        "reported fields"
                    } else {
                        "matrix bytes"
                    };
                    return fail(
                        "history_dependent",
                        format!("op {}: build after this setter history gives {:?}, a fresh builder with the final options {:?} gives {:?} ({} differ; history {})", i, a, model, fresh, what, hist_json(h)),
                    );
                }
                if let Ok(Some(q)) = catch(|| shared.build().ok().map(Box::new)) {
                    last = Some(q);
                    last_case = Some(BuildCase::new(h.input.clone(), model.clone()));
                }
            }
            Op::RenderText => {
                if let Some(q) = &last {
                    let before = snapshot(&Ok((**q).clone()));
                    let t1 = pc("to_str", || q.to_str())?;
                    let t2 = pc("to_str", || q.to_str())?;
                    ensure!(t1 == t2, "text_unstable", "op {}: to_str() twice on the same QR code differs", i);
                    // specification-level oracle (C16's) decides whether to ask a cold process; one in eight is asked anyway
                    renders += 1;
                    if let Some(lc) = &last_case {
                        let vals: Vec<bool> = q.data[..q.size * q.size].iter().map(|m| m.value()).collect();
                        let suspicious = super::c16::check_text(&t1, &vals, q.size, lc).is_err();
                        if suspicious || (hash_bytes(&h.input) + renders) % 3 == 0 {
                            if cold_render_verdict(lc, "text", &[], hash_bytes(t1.as_bytes()), &format!("op {}", i))? {
                                obs.label("cold_process_consulted:render");
                            }
                        }
                    }
                    ensure!(snapshot(&Ok((**q).clone())) == before, "render_mutates", "op {}: to_str() modified the QR code", i);
                    obs.label("render:text");
                }
            }
            Op::RenderSvg(prog) => {
                if let Some(q) = &last {
                    let before = snapshot(&Ok((**q).clone()));
                    let (s1, s2) = pc("SvgBuilder", || {
                        let mut b = SvgBuilder::default();
                        for op in prog {
                            apply_svg_op(&mut b, op);
                        }
                        (b.to_str(q), b.to_str(q))
                    })?;
                    let canon = pc("SvgBuilder", || {
                        let mut b = SvgBuilder::default();
                        fold_svg(prog).apply(&mut b);
                        b.to_str(q)
                    })?;
                    ensure!(s1 == s2, "svg_unstable", "op {}: the same SvgBuilder renders two different strings for the same QR code (program {:?})", i, prog);
                    ensure!(
                        s1 == canon,
                        "svg_history_dependent",
                        "op {}: SVG after setter program {} differs from a builder given only the final values {} ({} vs {} bytes)",
                        i,
                        Value::Array(prog.iter().map(svg_op_json).collect()),
                        fold_svg(prog).to_json(),
                        s1.len(),
                        canon.len()
                    );
                    ensure!(snapshot(&Ok((**q).clone())) == before, "render_mutates", "op {}: SvgBuilder::to_str modified the QR code", i);
                    renders += 1;
                    if let Some(lc) = &last_case {
                        let vals: Vec<bool> = q.data[..q.size * q.size].iter().map(|m| m.value()).collect();
                        let cell = std::cell::RefCell::new(crate::engine::LocalStats::default());
                        let mut scratch = Obs::new(&cell);
                        let suspicious = super::c12::check_svg(&s1, &vals, q.size, &fold_svg(prog), &mut scratch).is_err();
                        if suspicious || (hash_bytes(&h.input) + renders) % 8 == 0 {
                            if cold_render_verdict(lc, "svg", prog, hash_bytes(s1.as_bytes()), &format!("op {}", i))? {
                                obs.label("cold_process_consulted:render");
                            }
                        }
                    }
                    obs.label("render:svg");
                }
            }
            Op::FailingRender(k) => {
                let _ = catch(|| {
                    let bogus = QRCode::default(if i % 2 == 0 { 178 } else { 200 });
                    match k % 3 {
                        0 => {
                            let _ = bogus.to_str();
                        }
                        1 => {
                            let _ = SvgBuilder::default().to_str(&bogus);
                        }
                        _ => {
                            let _ = ImageBuilder::default().to_pixmap(&bogus);
                        }
                    }
                });
                obs.label("failing_render_in_history");
            }
            Op::Repeat(n) => {
                let n = if h.input.len() > 120 { (*n).min(260) } else { *n };
                let first = snap_build(&shared);
                let mut first_svg: Option<u64> = None;
                for k in 1..n {
                    let again = snap_build(&shared);
                    if again != first {
                        return fail("history_dependent:repeated_build", format!("op {}: build number {} in a row on the same builder gives {:?}, the first gave {:?} (history {})", i, k + 1, again, first, hist_json(h)));
                    }
                    if k % 64 == 1 {
                        if let Ok(Some(q)) = catch(|| shared.build().ok()) {
                            let hsh = hash_bytes(pc("SvgBuilder::to_str", || psvg.to_str(&q))?.as_bytes());
                            match first_svg {
                                None => first_svg = Some(hsh),
                                Some(f) if f != hsh => return fail("render_history_dependent:repeated_render", format!("op {}: the long-lived SvgBuilder renders the same symbol differently after {} builds (history {})", i, k, hist_json(h))),
                                _ => {}
                            }
                        }
                    }
                }
                let fresh = snap_build(&fresh_build(&h.input, &model));
                if fresh != first {
                    return fail("history_dependent", format!("op {}: after this history the builder gives {:?}, a fresh builder with the final options {:?} gives {:?} (history {})", i, first, model, fresh, hist_json(h)));
                }
                obs.label("repeat:builds_in_a_row");
            }
            Op::ForeignMask(v, k) => {
                let _ = catch(|| {
                    let mut blank = QRCode::default(size((*v).clamp(1, 40)));
                    fast_qr::datamasking::mask(&mut blank, f_mask(*k % 8));
                });
            }
            Op::PSet(o) => {
                pc("SvgBuilder setter", || apply_svg_op(&mut psvg, o))?;
                pprog.push(o.clone());
                if png_safe(o) {
                    pc("ImageBuilder setter", || apply_svg_op(&mut ppng, o))?;
                    pprog_png.push(o.clone());
                }
            }
            Op::PRenderSvg => {
                if let Some(q) = &last {
                    prenders += 1;
                    let s1 = pc("SvgBuilder::to_str", || psvg.to_str(q))?;
                    // a renderer that has never rendered anything, given the same setter calls in the same order
                    let fresh = pc("SvgBuilder", || {
                        let mut b = SvgBuilder::default();
                        for op in &pprog {
                            apply_svg_op(&mut b, op);
                        }
                        b.to_str(q)
                    })?;
                    ensure!(
                        s1 == fresh,
                        "renderer_history_dependent:svg",
                        "op {}: a long-lived SvgBuilder (render #{} of this history) gives {} bytes, a fresh SvgBuilder with the same setter calls gives {} bytes for the same QR code (setter calls {}; history {})",
                        i, prenders, s1.len(), fresh.len(), Value::Array(pprog.iter().map(svg_op_json).collect()), hist_json(h)
                    );
                    if let Some(lc) = &last_case {
                        let vals: Vec<bool> = q.data[..q.size * q.size].iter().map(|m| m.value()).collect();
                        let cell = std::cell::RefCell::new(crate::engine::LocalStats::default());
                        let mut scratch = Obs::new(&cell);
                        if super::c12::check_svg(&s1, &vals, q.size, &fold_svg(&pprog), &mut scratch).is_err() || (hash_bytes(&h.input) + prenders) % 8 == 0 {
                            if cold_render_verdict(lc, "svg", &pprog, hash_bytes(s1.as_bytes()), &format!("op {}", i))? {
                                obs.label("cold_process_consulted:render");
                            }
                        }
                    }
                    obs.label("render:svg_long_lived_builder");
                }
            }
            Op::PRenderPng => {
                if let Some(q) = &last {
                    if q.size <= 57 {
                        prenders += 1;
                        let p1 = pc("ImageBuilder::to_bytes", || ppng.to_bytes(q).map_err(|e| e.to_string()))?;
                        let fresh = pc("ImageBuilder", || {
                            let mut b = ImageBuilder::default();
                            for op in &pprog_png {
                                apply_svg_op(&mut b, op);
                            }
                            b.to_bytes(q).map_err(|e| e.to_string())
                        })?;
                        ensure!(
                            p1 == fresh,
                            "renderer_history_dependent:png",
                            "op {}: a long-lived ImageBuilder (render #{} of this history) and a fresh ImageBuilder with the same setter calls give different PNGs for the same QR code (setter calls {}; history {})",
                            i, prenders, Value::Array(pprog_png.iter().map(svg_op_json).collect()), hist_json(h)
                        );
                        obs.label("render:png_long_lived_builder");
                    }
                }
            }
            Op::RenderPng(prog) => {
                if let Some(q) = &last {
                    let before = snapshot(&Ok((**q).clone()));
                    let (p1, p2) = pc("ImageBuilder", || {
                        let mut b = ImageBuilder::default();
                        for op in prog {
                            apply_svg_op(&mut b, op);
                        }
                        (b.to_bytes(q).map_err(|e| e.to_string()), b.to_bytes(q).map_err(|e| e.to_string()))
                    })?;
                    let canon = pc("ImageBuilder", || {
                        let mut b = ImageBuilder::default();
                        fold_svg(prog).apply(&mut b);
                        b.to_bytes(q).map_err(|e| e.to_string())
                    })?;
                    ensure!(p1 == p2, "png_unstable", "op {}: the same ImageBuilder renders two different PNGs for the same QR code", i);
                    ensure!(p1 == canon, "png_history_dependent", "op {}: PNG after setter program differs from a builder given only the final values (program {:?})", i, prog);
                    ensure!(snapshot(&Ok((**q).clone())) == before, "render_mutates", "op {}: ImageBuilder::to_bytes modified the QR code", i);
                    renders += 1;
                    if let (Some(lc), Ok(bytes)) = (&last_case, &p1) {
                        if (hash_bytes(&h.input) + renders) % 4 == 0 {
                            if cold_render_verdict(lc, "png", prog, hash_bytes(bytes), &format!("op {}", i))? {
                                obs.label("cold_process_consulted:render");
                            }
                        }
                    }
                    obs.label("render:png");
                }
            }
        }
    }
    obs.label(&format!("builds:{}", builds.min(4)));
    obs.label(&format!("overwritten_options:{}", overwritten.min(4)));
    if overwritten >= 1 && builds >= 2 {
        obs.nontrivial(crate::engine::hash_value(&hist_json(h)));
    }
    obs.sample(&format!("history|builds{}", builds.min(3)), || hist_json(h));
    Ok(())
}

// ------------------------------------------------------------------------------------------------
// renderer histories: ONE SvgBuilder and ONE ImageBuilder instance used for several QR codes with setter calls
// in between; after every render the output must equal that of a fresh renderer given the same setter calls

#[derive(Clone, Debug)]
pub enum ROp {
    Set(SvgOp),
    Svg(usize),
    Png(usize),
    /// fit_width / fit_height on the long-lived ImageBuilder (last value wins per dimension)
    FitW(u32),
    FitH(u32),
    /// `to_file` of the long-lived SvgBuilder for QR #k, always to the SAME path of this history: afterwards the file
    /// must hold exactly what `to_str` gives (whatever an earlier render left in that file)
    SvgFile(usize),
}

#[derive(Clone, Debug)]
pub struct RHistory {
    pub qrs: Vec<BuildCase>,
    pub ops: Vec<ROp>,
}

pub fn rhist_json(h: &RHistory) -> Value {
    json!({"kind": "renderer_history", "qrs": h.qrs.iter().map(|b| b.to_json()).collect::<Vec<_>>(),
           "ops": h.ops.iter().map(|o| match o { ROp::Set(s) => json!({"set": svg_op_json(s)}), ROp::Svg(i) => json!({"svg": i}), ROp::Png(i) => json!({"png": i}), ROp::FitW(w) => json!({"fit_width": w}), ROp::FitH(h) => json!({"fit_height": h}), ROp::SvgFile(i) => json!({"svg_file": i}) }).collect::<Vec<_>>()})
}

fn rhist_from(v: &Value) -> Option<RHistory> {
    let qrs = v.get("qrs")?.as_array()?.iter().filter_map(BuildCase::from_json).collect();
    let ops = v.get("ops")?.as_array()?.iter().filter_map(|o| {
        if let Some(s) = o.get("set") { return Some(ROp::Set(svg_op_from(s)?)); }
        if let Some(i) = o.get("svg").and_then(|x| x.as_u64()) { return Some(ROp::Svg(i as usize)); }
        if let Some(i) = o.get("svg_file").and_then(|x| x.as_u64()) { return Some(ROp::SvgFile(i as usize)); }
        if let Some(w) = o.get("fit_width").and_then(|x| x.as_u64()) { return Some(ROp::FitW(w as u32)); }
        if let Some(h) = o.get("fit_height").and_then(|x| x.as_u64()) { return Some(ROp::FitH(h as u32)); }
        o.get("png").and_then(|x| x.as_u64()).map(|i| ROp::Png(i as usize))
    }).collect();
    Some(RHistory { qrs, ops })
}

pub fn check_rhistory(h: &RHistory, obs: &mut Obs) -> Result<(), Fail> {
    let mut built: Vec<Option<Box<QRCode>>> = Vec::new();
    for bc in &h.qrs {
        built.push(catch(|| bc.builder().build().ok().map(Box::new)).ok().flatten());
    }
    let mut psvg = SvgBuilder::default();
    let mut ppng = ImageBuilder::default();
    let mut prog: Vec<SvgOp> = Vec::new();
    let mut prog_png: Vec<SvgOp> = Vec::new();
    let mut renders = 0u64;
    let mut sizes = std::collections::BTreeSet::new();
    let (mut fit_w, mut fit_h): (Option<u32>, Option<u32>) = (None, None);
    for (i, op) in h.ops.iter().enumerate() {
        match op {
            ROp::Set(o) => {
                pc("SvgBuilder setter", || apply_svg_op(&mut psvg, o))?;
                prog.push(o.clone());
                if png_safe(o) {
                    pc("ImageBuilder setter", || apply_svg_op(&mut ppng, o))?;
                    prog_png.push(o.clone());
                }
            }
            ROp::SvgFile(k) => {
                let Some(Some(q)) = built.get(*k) else { continue };
                let path = std::env::temp_dir().join(format!("fqv-c14-{}-{:016x}.svg", std::process::id(), hash_bytes(rhist_json(h).to_string().as_bytes())));
                let path_s = path.to_string_lossy().to_string();
                let res = pc("SvgBuilder::to_file", || psvg.to_file(q, &path_s).map_err(|e| format!("{:?}", e)))?;
                let want = pc("SvgBuilder::to_str", || psvg.to_str(q))?;
                let got = std::fs::read(&path).unwrap_or_default();
                if i + 1 == h.ops.len() || !h.ops[i + 1..].iter().any(|o| matches!(o, ROp::SvgFile(_))) {
                    let _ = std::fs::remove_file(&path);
                }
                ensure!(res.is_ok(), "renderer_history_dependent:to_file_err", "op {}: to_file failed on a writable temporary path: {:?}", i, res);
                ensure!(
                    got == want.as_bytes(),
                    "renderer_history_dependent:file",
                    "op {}: after to_file the file has {} bytes, to_str of the same builder and QR #{} gives {} bytes (first difference at {:?}); the file held an earlier rendering of this history (history {})",
                    i, got.len(), k, want.len(), got.iter().zip(want.as_bytes()).position(|(a, b)| a != b), rhist_json(h)
                );
                obs.label("render:svg_to_same_file");
            }
            ROp::FitW(w) => {
                ppng.fit_width(*w);
                fit_w = Some(*w);
            }
            ROp::FitH(hh) => {
                ppng.fit_height(*hh);
                fit_h = Some(*hh);
            }
            ROp::Svg(k) => {
                let Some(Some(q)) = built.get(*k) else { continue };
                renders += 1;
                sizes.insert(q.size);
                let s1 = pc("SvgBuilder::to_str", || psvg.to_str(q))?;
                let fresh = pc("SvgBuilder", || {
                    let mut b = SvgBuilder::default();
                    for o in &prog {
                        apply_svg_op(&mut b, o);
                    }
                    b.to_str(q)
                })?;
                ensure!(
                    s1 == fresh,
                    "renderer_history_dependent:svg",
                    "op {}: the long-lived SvgBuilder (render #{}) gives {} bytes for QR #{} (size {}), a fresh SvgBuilder with the same setter calls gives {} bytes (history {})",
                    i, renders, s1.len(), k, q.size, fresh.len(), rhist_json(h)
                );
                // ... and a fresh SvgBuilder given only the FINAL value of every option, each once, in the documented
                // order (last value wins; the order of setter calls on different options does not matter)
                let canon = pc("SvgBuilder", || {
                    let mut b = SvgBuilder::default();
                    fold_svg(&prog).apply(&mut b);
                    b.to_str(q)
                })?;
                ensure!(
                    s1 == canon,
                    "renderer_history_dependent:setter_order",
                    "op {}: the long-lived SvgBuilder gives another document than a fresh SvgBuilder given only the final option values {} (first difference at byte {:?}; history {})",
                    i, fold_svg(&prog).to_json(), s1.bytes().zip(canon.bytes()).position(|(a, b)| a != b), rhist_json(h)
                );
                if (hash_bytes(&h.qrs[*k].input) + renders) % 16 == 0 {
                    if cold_render_verdict(&h.qrs[*k], "svg", &prog, hash_bytes(s1.as_bytes()), &format!("op {}", i))? {
                        obs.label("cold_process_consulted:render");
                    }
                }
            }
            ROp::Png(k) => {
                let Some(Some(q)) = built.get(*k) else { continue };
                renders += 1;
                sizes.insert(q.size);
                let p1 = pc("ImageBuilder::to_bytes", || ppng.to_bytes(q).map_err(|e| e.to_string()))?;
                // a fresh ImageBuilder given only the FINAL value of every option, each once (last value wins)
                let fresh = pc("ImageBuilder", || {
                    let mut b = ImageBuilder::default();
                    fold_svg(&prog_png).apply(&mut b);
                    if let Some(w) = fit_w {
                        b.fit_width(w);
                    }
                    if let Some(hh) = fit_h {
                        b.fit_height(hh);
                    }
                    b.to_bytes(q).map_err(|e| e.to_string())
                })?;
                ensure!(
                    p1 == fresh,
                    "renderer_history_dependent:png",
                    "op {}: the long-lived ImageBuilder (render #{}) and a fresh ImageBuilder given only the final option values (fit width {:?}, height {:?}) give different PNGs for QR #{} (history {})",
                    i, renders, fit_w, fit_h, k, rhist_json(h)
                );
            }
        }
    }
    obs.label(&format!("renders:{}", renders.min(6)));
    if renders >= 2 && sizes.len() >= 2 {
        obs.label("renderer_reused_across_sizes");
        obs.nontrivial(crate::engine::hash_value(&rhist_json(h)));
    }
    obs.sample(&format!("renderer_history|{}", renders.min(3)), || rhist_json(h));
    Ok(())
}

pub fn rhistory_strategy() -> BoxedStrategy<RHistory> {
    let qr = (1usize..=5, 0usize..4, prop_oneof![Just(None), (0u8..8).prop_map(Some)]).prop_flat_map(|(v, li, mask)| {
        let cell = crate::gens::Cell { version: v, level: Level::from_index(li), mode: Mode::Byte };
        crate::gens::case_in_cell(cell, crate::gens::Force { mode: false, level: true, version: true }, mask).prop_map(|(c, _)| c)
    });
    vec(qr, 2..5)
        .prop_flat_map(|qrs| {
            let k = qrs.len();
            let op = prop_oneof![
                6 => p_op().prop_map(ROp::Set),
                5 => (0..k).prop_map(ROp::Svg),
                2 => (0..k).prop_map(ROp::Png),
                2 => (0..k).prop_map(ROp::SvgFile),
                1 => (20u32..400).prop_map(ROp::FitW),
                1 => (20u32..400).prop_map(ROp::FitH),
            ];
            // most histories start by configuring an embedded image (the part of the output that depends on both
            // margin and symbol size)
            (any::<bool>(), vec(op, 2..14), vec(any::<u8>(), 14)).prop_map(move |(img, ops, sel)| {
                // "last value wins": in front of about every third setter call of a last-value-wins option the SAME setter
                // is called with another value (smaller, larger, zero, another colour)
                let mut out: Vec<ROp> = Vec::with_capacity(ops.len() * 2 + 1);
                if img {
                    out.push(ROp::Set(SvgOp::Image("logo.png".to_string())));
                }
                for (i, op) in ops.into_iter().enumerate() {
                    let s = sel[i % sel.len()];
                    if s % 3 == 0 {
                        let other = match &op {
                            ROp::Set(SvgOp::ImageSize(x)) => Some(SvgOp::ImageSize(match s / 3 % 3 { 0 => 0.5, 1 => x + 3.5, _ => (x / 2.0).max(0.25) })),
                            ROp::Set(SvgOp::ImageGap(g)) => Some(SvgOp::ImageGap(match s / 3 % 3 { 0 => 0.0, 1 => g + 2.5, _ => g + 7.0 })),
                            ROp::Set(SvgOp::Margin(m)) => Some(SvgOp::Margin((m + 1 + (s as usize / 3) % 5) % 9)),
                            ROp::Set(SvgOp::ImagePosition(x, y)) => Some(SvgOp::ImagePosition(*y + 1.0, *x)),
                            ROp::Set(SvgOp::ImageBgShape(k)) => Some(SvgOp::ImageBgShape((k + 1) % 3)),
                            ROp::Set(SvgOp::Background(_)) => Some(SvgOp::Background(ColorSpec::Rgb([(s / 3) * 3, 40, 200]))),
                            ROp::Set(SvgOp::ModuleColor(_)) => Some(SvgOp::ModuleColor(ColorSpec::Rgb([10, (s / 3) * 3, 90]))),
                            ROp::Set(SvgOp::ImageBgColor(_)) => Some(SvgOp::ImageBgColor(ColorSpec::Rgb([250, 250, (s / 3) * 3]))),
                            _ => None,
                        };
                        if let Some(o) = other {
                            out.push(ROp::Set(o));
                        }
                    }
                    out.push(op);
                }
                RHistory { qrs: qrs.clone(), ops: out }
            })
        })
        .boxed()
}

// ------------------------------------------------------------------------------------------------
// concurrency

#[derive(Clone, Debug)]
pub struct Round {
    pub pool: Vec<BuildCase>,
    /// per thread: indices into the pool, in execution order
    pub plans: Vec<Vec<usize>>,
    pub render: bool,
    /// every thread executes its plan this many times
    pub repeat: usize,
}

fn round_json(r: &Round) -> Value {
    json!({"kind": "round", "pool": r.pool.iter().map(|b| b.to_json()).collect::<Vec<_>>(), "plans": r.plans, "render": r.render, "repeat": r.repeat})
}

fn digest(bc: &BuildCase, render: bool) -> Result<(Snapshot, u64), String> {
    let r = digest_inner(bc, render);
    match r {
        Ok(x) => Ok(x),
        // a panicking build is a (deterministic or not) result like any other
        Err(_) => Ok((Snapshot { kind: 3, bytes: vec![], size: 0, fields: [-1; 4] }, 0)),
    }
}

fn digest_inner(bc: &BuildCase, render: bool) -> Result<(Snapshot, u64), String> {
    catch(|| {
        let r = bc.builder().build();
        let mut h = 0u64;
        if render {
            if let Ok(q) = &r {
                let svg = SvgBuilder::default().to_str(q);
                let txt = q.to_str();
                h = hash_bytes(svg.as_bytes()) ^ hash_bytes(txt.as_bytes()).rotate_left(17);
                if q.size <= 33 {
                    let png = ImageBuilder::default().to_bytes(q).map_err(|e| e.to_string());
                    if let Ok(p) = png {
                        h ^= hash_bytes(&p).rotate_left(31);
                    }
                }
            }
        }
        (snapshot(&r), h)
    })
}

pub fn check_round(r: &Round, obs: &mut Obs) -> Result<(), Fail> {
    // single-threaded reference first
    let mut reference = Vec::new();
    for bc in &r.pool {
        reference.push(digest(bc, r.render).map_err(|p| Fail { sig: panic_sig(&p), msg: format!("reference build panicked: {}", p) })?);
    }
    // the single-threaded reference itself against the specification model / a cold process
    for (bc, d) in r.pool.iter().zip(reference.iter()) {
        cold_verdict(bc, &d.0, false, "single-threaded reference of a concurrent round")?;
    }
    let reference = &reference;
    let counted = std::sync::atomic::AtomicU64::new(0);
    let counted = &counted;
    let threads = r.plans.len();
    let barrier = std::sync::Barrier::new(threads);
    let results: Vec<Result<Vec<(usize, Result<(Snapshot, u64), String>)>, ()>> = std::thread::scope(|s| {
        let hs: Vec<_> = r
            .plans
            .iter()
            .map(|plan| {
                let barrier = &barrier;
                let pool = &r.pool;
                std::thread::Builder::new()
                    .stack_size(16 << 20)
                    .spawn_scoped(s, move || {
                        barrier.wait();
                        let mut out = Vec::new();
                        for _ in 0..r.repeat.max(1) {
                            for &i in plan.iter() {
                                let d = digest(&pool[i], r.render);
                                // keep one result per pool item unless it deviates (memory)
                                let deviates = match (&d, &reference[i]) {
                                    (Ok(x), y) => x != y,
                                    (Err(_), _) => true,
                                };
                                if deviates || out.len() < 64 {
                                    out.push((i, d));
                                } else {
                                    counted.fetch_add(1, std::sync::atomic::Ordering::Relaxed);
                                }
                            }
                        }
                        out
                    })
                    .unwrap()
            })
            .collect();
        hs.into_iter().map(|h| h.join().map_err(|_| ())).collect()
    });
    let mut executions = 0;
    for (t, res) in results.into_iter().enumerate() {
        let res = res.map_err(|_| Fail { sig: "thread_died".into(), msg: format!("worker thread {} died", t) })?;
        for (i, d) in res {
            executions += 1;
            match d {
                Err(p) => return fail(&panic_sig(&p), format!("thread {} of {}: build of pool item {} panicked: {} ({:?})", t, threads, i, p, r.pool[i])),
                Ok(d) => {
                    if d != reference[i] {
                        return fail(
                            "schedule_dependent",
                            format!(
                                "thread {} of {}: pool item {} gives {:?}/render {:016x} under concurrency but {:?}/render {:016x} single-threaded ({:?})",
                                t, threads, i, d.0, d.1, reference[i].0, reference[i].1, r.pool[i]
                            ),
                        );
                    }
                }
            }
        }
    }
    obs.label(&format!("threads:{}", threads));
    obs.count("concurrent_executions", executions + counted.load(std::sync::atomic::Ordering::Relaxed));
    if r.repeat > 1 {
        obs.label("round:tight_loop");
    }
    if threads >= 2 {
        obs.nontrivial(crate::engine::hash_value(&round_json(r)));
    }
    obs.sample(&format!("round|threads{}", if threads >= 8 { "8+" } else if threads >= 2 { "2-7" } else { "1" }), || {
        json!({"kind": "round", "threads": threads, "pool": r.pool.iter().map(|b| b.to_sample()).collect::<Vec<_>>(), "plans": r.plans, "render": r.render})
    });
    Ok(())
}

fn round_from(case: &Value) -> Option<Round> {
    let pool: Vec<BuildCase> = case["pool"].as_array()?.iter().filter_map(BuildCase::from_json).collect();
    let plans: Vec<Vec<usize>> = case["plans"].as_array()?.iter().map(|p| p.as_array().map(|a| a.iter().filter_map(|x| x.as_u64().map(|y| y as usize)).collect()).unwrap_or_default()).collect();
    Some(Round { pool, plans, render: case["render"].as_bool().unwrap_or(false), repeat: case["repeat"].as_u64().unwrap_or(1) as usize })
}

fn digest_line(d: &Result<(Snapshot, u64), String>) -> String {
    match d {
        Ok((s, r)) => format!("{} {:016x}", snap_line(s), r),
        Err(p) => format!("panic {}", panic_sig(p)),
    }
}

/// Child-process entry `fqv __coldround <round.json>`: the FIRST thing this process does with the crate is the
/// concurrent round (threads released together by a barrier) - whatever a first use initialises lazily is initialised
/// under contention. Prints one line per (thread, pool item) execution that differs from the expected digests.
pub fn coldround_main(args: &[String]) -> ! {
    let text = std::fs::read_to_string(&args[0]).unwrap_or_default();
    let v: Value = serde_json::from_str(&text).unwrap_or(Value::Null);
    let Some(r) = round_from(&v["round"]) else { std::process::exit(3) };
    let expected: Vec<String> = v["expected"].as_array().map(|a| a.iter().map(|x| x.as_str().unwrap_or("").to_string()).collect()).unwrap_or_default();
    let barrier = std::sync::Barrier::new(r.plans.len());
    let diffs: Vec<String> = std::thread::scope(|s| {
        let hs: Vec<_> = r
            .plans
            .iter()
            .enumerate()
            .map(|(t, plan)| {
                let (barrier, pool, expected) = (&barrier, &r.pool, &expected);
                std::thread::Builder::new()
                    .stack_size(16 << 20)
                    .spawn_scoped(s, move || {
                        barrier.wait();
                        let mut out = Vec::new();
                        for &i in plan.iter() {
                            let d = digest_line(&digest(&pool[i], r.render));
                            if Some(&d) != expected.get(i) && out.len() < 4 {
                                out.push(format!("thread {} item {}: {} (expected {})", t, i, d, expected.get(i).cloned().unwrap_or_default()));
                            }
                        }
                        out
                    })
                    .unwrap()
            })
            .collect();
        hs.into_iter().flat_map(|h| h.join().unwrap_or_else(|_| vec!["a worker thread died".to_string()])).collect()
    });
    for d in diffs.iter().take(8) {
        println!("COLDROUND differ {}", d);
    }
    println!("COLDROUND done {}", diffs.len());
    std::process::exit(0)
}

/// The round executed as the very first use of the crate in a fresh process, against this (warm) process's sequential
/// results.
pub fn check_cold_round(r: &Round, obs: &mut Obs) -> Result<(), Fail> {
    if std::env::var("FQV_IN_FUZZ").is_ok() {
        return Ok(());
    }
    let expected: Vec<String> = r.pool.iter().map(|bc| digest_line(&digest(bc, r.render))).collect();
    let Ok(exe) = std::env::current_exe() else { return Ok(()) };
    let k = COLD_SEQ.fetch_add(1, std::sync::atomic::Ordering::SeqCst);
    let path = std::env::temp_dir().join(format!("fqv-coldround-{}-{}.json", std::process::id(), k));
    if std::fs::write(&path, json!({"round": round_json(r), "expected": expected}).to_string()).is_err() {
        return Ok(());
    }
    let out = std::process::Command::new(exe).arg("__coldround").arg(&path).output();
    let _ = std::fs::remove_file(&path);
    let Ok(out) = out else { return Ok(()) };
    let text = String::from_utf8_lossy(&out.stdout);
    let done = text.lines().any(|l| l.starts_with("COLDROUND done"));
    if !done {
        return fail("cold_round_died", format!("the process running the round as its first use of the crate ended with {:?}: {} ({})", out.status.code(), String::from_utf8_lossy(&out.stderr).chars().take(300).collect::<String>(), round_json(r)));
    }
    if let Some(l) = text.lines().find(|l| l.starts_with("COLDROUND differ")) {
        return fail("schedule_dependent:first_use_under_contention", format!("a fresh process whose first use of the crate is this round on {} threads: {} ({})", r.plans.len(), &l[17..], round_json(r)));
    }
    obs.label(&format!("cold_round_threads:{}", r.plans.len()));
    obs.count("child_processes", 1);
    obs.nontrivial(crate::engine::hash_value(&round_json(r)) ^ 0xC01D);
    Ok(())
}

/// see the part `repeated_automatic_builds`
pub fn check_repeated(bc: &BuildCase, obs: &mut Obs) -> Result<(), Fail> {
    let first = snap_build(&bc.builder());
    for k in 1..6 {
        let again = snap_build(&bc.builder());
        if again != first {
            return fail("history_dependent:same_build_differs", format!("build number {} of the same input and options gives {:?}, the first gave {:?} ({:?})", k + 1, again, first, bc));
        }
    }
    if first.kind == 0 {
        obs.nontrivial(bc.hash() ^ 0x6666);
    }
    Ok(())
}

pub fn replay(_e: &Engine, case: &Value, obs: &mut Obs) -> Result<(), Fail> {
    let bad = || Fail { sig: "bad_replay".into(), msg: "cannot parse case".into() };
    if case.get("concurrent").is_some() {
        return super::c19::replay(_e, case, obs);
    }
    if case.get("kind").and_then(|k| k.as_str()) == Some("repeated_build") {
        let bc = BuildCase::from_json(case).ok_or_else(bad)?;
        for _ in 0..20 {
            check_repeated(&bc, obs)?;
        }
        return Ok(());
    }
    if case.get("kind").and_then(|k| k.as_str()) == Some("round") && case.get("cold").is_some() {
        let r = round_from(case).ok_or_else(bad)?;
        for _ in 0..12 {
            check_cold_round(&r, obs)?;
        }
        return Ok(());
    }
    if case.get("kind").and_then(|k| k.as_str()) == Some("round") {
        let pool: Vec<BuildCase> = case["pool"].as_array().ok_or_else(bad)?.iter().filter_map(BuildCase::from_json).collect();
        let plans: Vec<Vec<usize>> = case["plans"].as_array().ok_or_else(bad)?.iter().map(|p| p.as_array().map(|a| a.iter().filter_map(|x| x.as_u64().map(|y| y as usize)).collect()).unwrap_or_default()).collect();
        let r = Round { pool, plans, render: case["render"].as_bool().unwrap_or(false), repeat: case["repeat"].as_u64().unwrap_or(1) as usize };
        // schedules are sampled, not controlled: repeat the round a few times
        for _ in 0..20 {
            check_round(&r, obs)?;
        }
        return Ok(());
    }
    if case.get("kind").and_then(|k| k.as_str()) == Some("renderer_history") {
        return check_rhistory(&rhist_from(case).ok_or_else(bad)?, obs);
    }
    let input = case["input_hex"].as_str().and_then(unhex).ok_or_else(bad)?;
    let ops: Vec<Op> = case["ops"].as_array().ok_or_else(bad)?.iter().filter_map(op_from).collect();
    check_history(&History { input, ops }, obs)
}

fn svg_op() -> BoxedStrategy<SvgOp> {
    prop_oneof![
        2 => (0usize..=12).prop_map(SvgOp::Margin),
        2 => palette_color().prop_map(SvgOp::ModuleColor),
        2 => palette_color().prop_map(SvgOp::Background),
        3 => (0usize..6, prop_oneof![Just(None), palette_color().prop_map(Some)]).prop_map(|(s, c)| SvgOp::Shape(s, c)),
        1 => prop_oneof![Just("logo.png".to_string()), Just("https://e.com/a?b=1&c=2".to_string()), Just("other.svg".to_string())].prop_map(SvgOp::Image),
        1 => palette_color().prop_map(SvgOp::ImageBgColor),
        1 => (0usize..3).prop_map(SvgOp::ImageBgShape),
        1 => (2u32..20).prop_map(|x| SvgOp::ImageSize(x as f64 / 2.0)),
        1 => (0u32..8).prop_map(|x| SvgOp::ImageGap(x as f64 / 2.0)),
        1 => (0u32..40, 0u32..40).prop_map(|(x, y)| SvgOp::ImagePosition(x as f64 / 2.0, y as f64 / 2.0)),
    ]
    .boxed()
}

fn png_safe(o: &SvgOp) -> bool {
    match o {
        SvgOp::Margin(_) => true,
        SvgOp::ModuleColor(c) => matches!(c, ColorSpec::Rgb(_)),
        // backgrounds may be transparent or translucent (numeric colours only: the rasteriser resolves no CSS names here)
        SvgOp::Background(c) => matches!(c, ColorSpec::Rgb(_) | ColorSpec::Rgba(_)),
        SvgOp::Shape(_, c) => c.as_ref().map(|c| matches!(c, ColorSpec::Rgb(_))).unwrap_or(true),
        _ => false,
    }
}

/// setter calls for the long-lived renderers: small margins (equal canvas widths for different versions are then
/// frequent), image settings, colours, shapes
fn palette_rgb() -> BoxedStrategy<ColorSpec> {
    prop_oneof![2 => Just(ColorSpec::Rgb([255, 255, 255])), 2 => Just(ColorSpec::Rgb([0, 0, 0])), 1 => Just(ColorSpec::Rgb([200, 30, 30])), 2 => rgb_color()].boxed()
}

fn p_op() -> BoxedStrategy<SvgOp> {
    prop_oneof![
        4 => (0usize..=8).prop_map(SvgOp::Margin),
        2 => prop_oneof![Just("logo.png".to_string()), Just("data:image/png;base64,AAAA".to_string())].prop_map(SvgOp::Image),
        1 => (0usize..3).prop_map(SvgOp::ImageBgShape),
        // colours mostly from a small palette containing the defaults (white, black): a value given to one option often
        // equals the value another option has at that moment
        2 => palette_rgb().prop_map(SvgOp::ImageBgColor),
        2 => palette_rgb().prop_map(SvgOp::ModuleColor),
        2 => palette_rgb().prop_map(SvgOp::Background),
        1 => (any::<[u8; 3]>(), prop_oneof![Just(0u8), Just(128u8), 1u8..255]).prop_map(|(c, a)| SvgOp::Background(ColorSpec::Rgba([c[0], c[1], c[2], a]))),
        1 => (0usize..6).prop_map(|s| SvgOp::Shape(s, None)),
        2 => (2u32..20).prop_map(|x| SvgOp::ImageSize(x as f64 / 2.0)),
        2 => (0u32..10).prop_map(|x| SvgOp::ImageGap(x as f64 / 2.0)),
        1 => (0u32..40, 0u32..40).prop_map(|(x, y)| SvgOp::ImagePosition(x as f64 / 2.0, y as f64 / 2.0)),
    ]
    .boxed()
}

/// PNG programs avoid external image references and CSS colour names (the rasteriser would have to resolve them)
fn png_op() -> BoxedStrategy<SvgOp> {
    prop_oneof![
        2 => (0usize..=6).prop_map(SvgOp::Margin),
        2 => rgb_color().prop_map(SvgOp::ModuleColor),
        2 => rgb_color().prop_map(SvgOp::Background),
        2 => (any::<[u8; 3]>(), prop_oneof![Just(0u8), Just(128u8), 1u8..255]).prop_map(|(c, a)| SvgOp::Background(ColorSpec::Rgba([c[0], c[1], c[2], a]))),
        3 => (0usize..6, prop_oneof![Just(None), rgb_color().prop_map(Some)]).prop_map(|(s, c)| SvgOp::Shape(s, c)),
    ]
    .boxed()
}

fn small_other() -> BoxedStrategy<BuildCase> {
    (0usize..3, 0usize..40, prop_oneof![Just(None), (0usize..4).prop_map(|l| Some(Level::from_index(l)))], prop_oneof![Just(None), (0u8..8).prop_map(Some)])
        .prop_flat_map(|(mi, len, level, mask)| {
            let mode = Mode::from_index(mi);
            payload(mode, len, true).prop_map(move |(input, _)| BuildCase::new(input, Opts { mode: None, level, version: None, mask }))
        })
        .boxed()
}

/// An unrelated build whose input nearly collides with the history's own input: same length and same first/last
/// bytes with one character moved to another class, or one character shorter/longer, or the same bytes under other
/// options. A cache keyed on too little (length, a prefix, a hash of part of the input, the options only) returns
/// the other build's answer for one of them.
fn near_collision(input: Vec<u8>) -> BoxedStrategy<BuildCase> {
    (any::<u16>(), 0usize..6, 0usize..3, prop_oneof![Just(None), (0usize..4).prop_map(|l| Some(Level::from_index(l)))], prop_oneof![Just(None), (0u8..8).prop_map(Some)])
        .prop_map(move |(pos, kind, cls, level, mask)| {
            let mut v = input.clone();
            let repl = [b'7', b'K', b'k'][cls];
            match kind {
                0 | 1 if !v.is_empty() => {
                    // keep the first byte: replace an interior / last character by one of another class
                    let p = if v.len() == 1 { 0 } else { 1 + pick(pos, v.len() - 1) };
                    v[p] = if v[p] == repl { [b'3', b'Q', b'q'][cls] } else { repl };
                }
                2 if !v.is_empty() => {
                    v.pop();
                }
                3 => v.push(repl),
                4 if !v.is_empty() => {
                    let p = pick(pos, v.len());
                    v[p] = if v[p] == repl { [b'3', b'Q', b'q'][cls] } else { repl };
                }
                _ => {}
            }
            BuildCase::new(v, Opts { mode: None, level, version: None, mask })
        })
        .boxed()
}

pub fn history_strategy() -> BoxedStrategy<History> {
    (0usize..3, prop_oneof![3 => 0usize..60, 1 => 0usize..600])
        .prop_flat_map(|(mi, len)| {
            let class = Mode::from_index(mi);
            // one input in three is a realistic text (links, contact data, serials in either letter case: often inside a
            // compact alphabet except for letter case, a separator or a prefix)
            prop_oneof![2 => payload(class, len, true), 1 => crate::gens::realistic_payload().prop_map(|v| (v, "realistic"))].prop_flat_map(move |(input, _)| {
                // modes whose alphabet contains the input
                let modes: Vec<Mode> = MODES.iter().copied().filter(|m| in_alphabet(*m, &input)).collect();
                let op = prop_oneof![
                    2 => proptest::sample::select(modes).prop_map(Op::SetMode),
                    // any mode, also one the input does not fit: such a build panics (a result like any other here), and
                    // the setter may be overwritten before the next build
                    2 => (0usize..3).prop_map(|i| Op::SetMode(Mode::from_index(i))),
                    2 => (0usize..4).prop_map(|l| Op::SetEcl(Level::from_index(l))),
                    2 => prop_oneof![3 => 1usize..=10, 1 => 1usize..=40].prop_map(Op::SetVersion),
                    2 => (0u8..8).prop_map(Op::SetMask),
                    4 => Just(Op::Build),
                    1 => small_other().prop_map(Op::BuildOther),
                    2 => near_collision(input.clone()).prop_map(Op::BuildOther),
                    1 => Just(Op::RenderText),
                    2 => vec(svg_op(), 0..8).prop_map(Op::RenderSvg),
                    1 => vec(png_op(), 0..5).prop_map(Op::RenderPng),
                    1 => (prop_oneof![3 => 1usize..=10, 1 => 1usize..=40], 0u8..8).prop_map(|(v, k)| Op::ForeignMask(v, k)),
                    1 => (0u8..3).prop_map(Op::FailingRender),
                    1 => prop_oneof![(0u16..4).prop_map(|d| 254 + d), (0u16..4).prop_map(|d| 1022 + d), Just(300u16), 2u16..40].prop_map(Op::Repeat),
                    3 => p_op().prop_map(Op::PSet),
                    3 => Just(Op::PRenderSvg),
                    1 => Just(Op::PRenderPng),
                ];
                (vec(op, 0..32), vec(any::<u8>(), 32)).prop_map(move |(ops, sel)| {
                    // "last value wins": in front of about every third setter call another call of the SAME setter with
                    // another value of its type is inserted (for the mode: any mode, also one the input does not fit)
                    let mut out = Vec::with_capacity(ops.len() * 2);
                    for (i, op) in ops.into_iter().enumerate() {
                        let s = sel[i % sel.len()];
                        if s % 3 == 0 {
                            match &op {
                                Op::SetMode(m) => out.push(Op::SetMode(Mode::from_index((*m as usize + 1 + (s as usize / 3) % 2) % 3))),
                                Op::SetEcl(l) => out.push(Op::SetEcl(Level::from_index((*l as usize + 1 + (s as usize / 3) % 3) % 4))),
                                Op::SetVersion(v) => out.push(Op::SetVersion(1 + (*v + (s as usize / 3) % 39) % 40)),
                                Op::SetMask(k) => out.push(Op::SetMask((*k + 1 + (s / 3) % 7) % 8)),
                                _ => {}
                            }
                        }
                        out.push(op);
                    }
                    History { input: input.clone(), ops: out }
                })
            })
        })
        .boxed()
}

pub fn round_strategy() -> BoxedStrategy<Round> {
    // a pool mixing V1-size and large builds so that executions overlap
    let item = prop_oneof![
        3 => small_other(),
        2 => (0usize..3, 500usize..2900, prop_oneof![Just(None), (0u8..8).prop_map(Some)]).prop_flat_map(|(mi, len, mask)| {
            let mode = Mode::from_index(mi);
            let len = len.min(capacity(40, Level::L, mode));
            payload(mode, len, true).prop_map(move |(input, _)| BuildCase::new(input, Opts { mode: None, level: Some(Level::L), version: None, mask }))
        }),
    ];
    (vec(item, 2..8), prop_oneof![1 => 1usize..=1, 3 => 2usize..=16, 2 => 16usize..=16], any::<bool>())
        .prop_flat_map(|(pool, threads, render)| {
            let k = pool.len();
            vec(vec(any::<u16>().prop_map(move |s| pick(s, k)), 1..10), threads).prop_map(move |plans| Round { pool: pool.clone(), plans, render, repeat: 1 })
        })
        .boxed()
}

/// Tight loops: 8..16 threads each building the same few SMALL symbols of different versions hundreds of times,
/// so that tens of thousands of ~30 us builds overlap (a race window of a few nanoseconds between builds of
/// different versions needs that many attempts).
pub fn tight_round_strategy() -> BoxedStrategy<Round> {
    let item = (1usize..=6, 0usize..4, 0usize..3, prop_oneof![Just(None), (0u8..8).prop_map(Some)], any::<bool>()).prop_flat_map(|(v, li, mi, mask, fv)| {
        let cell = crate::gens::Cell { version: v, level: Level::from_index(li), mode: Mode::from_index(mi) };
        crate::gens::case_in_cell(cell, crate::gens::Force { mode: false, level: true, version: fv }, mask).prop_map(|(c, _)| c)
    });
    (vec(item, 2..6), prop_oneof![1 => 2usize..=8, 3 => 16usize..=16], 40usize..160)
        .prop_flat_map(|(pool, threads, repeat)| {
            let k = pool.len();
            vec(vec(any::<u16>().prop_map(move |s| pick(s, k)), 2..8), threads).prop_map(move |plans| Round { pool: pool.clone(), plans, render: false, repeat })
        })
        .boxed()
}

pub fn run(e: &'static Engine) {
    e.set_rule(
        "Histories (model-based): proptest vec(op, 0..24) over SetMode (only modes whose alphabet contains the input) / SetEcl / \
         SetVersion / SetMask / Build / BuildOther (unrelated build on another builder) / RenderText / RenderSvg(program of 0..8 \
         renderer setter calls) / RenderPng(program), run by an interpreter against a last-value-wins model of the four options. \
         After every Build: result (Ok/Err kind, all 31 329 matrix bytes, size, four fields) == build of a fresh builder given only \
         the final values once, and building twice on the same builder is identical. Renderers: output equal on repeated use, equal \
         to a renderer given only the final scalar values (shape calls compared as an ordered list), QR code bytes unchanged after \
         rendering. Concurrency: rounds of 1..=16 threads released by a barrier, each executing a generated plan over a pool that \
         mixes V1-size and V25-V40 builds (plus SVG/text/PNG rendering), every result compared with the single-threaded reference \
         computed beforehand. Non-trivial: a history with >= 1 overwritten option and >= 2 builds, or a round with >= 2 threads.",
    );
    e.extend_rule("setter histories with overwrite pairs and modes the input does not fit; Repeat ops (2..40, 254..257, 300, 1022..1025 builds in a row); FailingRender ops; the cold reference process runs under one of 12 generated environments; part cold_concurrent_rounds (the round as the first use of the crate in a fresh process); part concurrent_file_exports (two threads released by a barrier write <stem>.svg and <stem>.png of one code into one directory, 40 rounds per case: each file holds exactly its own in-memory rendering).");
    e.assume("interleavings are sampled by stress, not controlled: the crate has no primitive through which a test could own the schedule");
    crate::engine::run_regress(e, &|c, o| replay(e, c, o));
    let total: u32 = e.tier.pick(640, 12800);
    let shards = e.tier.pick(16u32, 64);
    let mut jobs: Vec<Job> = Vec::new();
    for _ in 0..shards {
        jobs.push(Box::new(move |jc: &mut JobCtx| {
            let strat = history_strategy();
            jc.run_prop(1 << 20, &strat, total / shards, hist_json, |h, o| {
                o.label("part:histories");
                check_history(h, o)
            });
        }));
    }
    e.par(jobs);
    let total: u32 = e.tier.pick(1920, 38400);
    let mut jobs: Vec<Job> = Vec::new();
    for _ in 0..shards {
        jobs.push(Box::new(move |jc: &mut JobCtx| {
            let strat = rhistory_strategy();
            jc.run_prop(4 << 20, &strat, total / shards, rhist_json, |h, o| {
                o.label("part:renderer_histories");
                check_rhistory(h, o)
            });
        }));
    }
    e.par(jobs);
    // The plainest reading of the property on MANY inputs: the same fresh build six times in a row gives six identical
    // results - automatic mask, versions 1-14 where exact penalty ties between candidates occur (a tie is where an
    // unstable choice shows)
    let total: u32 = e.tier.pick(6400, 96000);
    let shards = e.tier.pick(32u32, 96);
    let mut jobs: Vec<Job> = Vec::new();
    for _ in 0..shards {
        jobs.push(Box::new(move |jc: &mut JobCtx| {
            let strat = crate::gens::auto_mask_small().prop_map(|(c, _, _)| c);
            jc.run_prop(7 << 20, &strat, total / shards, |c| { let mut j = c.to_json(); j["kind"] = json!("repeated_build"); j }, |c, o| {
                o.label("part:repeated_automatic_builds");
                check_repeated(c, o)
            });
        }));
    }
    e.par(jobs);
    // the same kind of round as the FIRST use of the crate in a fresh process (few items, many threads, one pass): lazily
    // initialised tables and caches are then filled under contention
    let rounds: u32 = e.tier.pick(48, 600);
    let mut jobs: Vec<Job> = Vec::new();
    for _ in 0..4 {
        jobs.push(Box::new(move |jc: &mut JobCtx| {
            let item = (1usize..=6, 0usize..4, 0usize..3, prop_oneof![1 => Just(None), 3 => (0u8..8).prop_map(Some)], any::<bool>()).prop_flat_map(|(v, li, mi, mask, fv)| {
                let cell = crate::gens::Cell { version: v, level: Level::from_index(li), mode: Mode::from_index(mi) };
                crate::gens::case_in_cell(cell, crate::gens::Force { mode: false, level: true, version: fv }, mask).prop_map(|(c, _)| c)
            });
            let strat = (vec(item, 1..4), prop_oneof![1 => 2usize..=8, 3 => Just(16usize)], any::<bool>()).prop_map(|(pool, threads, render)| {
                let k = pool.len();
                Round { pool, plans: (0..threads).map(|t| (0..k).map(|j| (j + t) % k).collect()).collect(), render, repeat: 1 }
            });
            jc.run_prop(6 << 20, &strat, rounds / 4, |r| { let mut j = round_json(r); j["cold"] = json!(true); j }, |r, o| {
                o.label("part:cold_concurrent_rounds");
                check_cold_round(r, o)
            });
        }));
    }
    e.par(jobs);
    // concurrency rounds run one at a time so that each round owns the cores
    let rounds: u32 = e.tier.pick(48, 1000);
    e.par(vec![Box::new(move |jc: &mut JobCtx| {
        let strat = round_strategy();
        jc.run_prop(2 << 20, &strat, rounds, round_json, |r, o| {
            o.label("part:concurrent_rounds");
            check_round(r, o)
        });
    })]);
    let rounds: u32 = e.tier.pick(40, 600);
    e.par(vec![Box::new(move |jc: &mut JobCtx| {
        let strat = tight_round_strategy();
        jc.run_prop(3 << 20, &strat, rounds, round_json, |r, o| {
            o.label("part:tight_rounds");
            check_round(r, o)
        });
    })]);
    // two file exports at the same time (the SVG and the PNG of one code into one directory): what each call writes
    // depends only on its own QR code and options, never on the export running beside it (oracle shared with C19)
    let conc_cases: u32 = e.tier.pick(3, 20);
    let mut jobs: Vec<Job> = Vec::new();
    for _ in 0..4 {
        jobs.push(Box::new(move |jc: &mut JobCtx| {
            let strat = (
                (0usize..24).prop_flat_map(|ci| crate::gens::case_in_cell(crate::gens::Cell::from_index(ci), crate::gens::Force { mode: false, level: true, version: false }, None)),
                prop_oneof![3 => Just(true), 1 => Just(false)],
            );
            jc.run_prop(7 << 20, &strat, conc_cases, |((b, _), same)| json!({"concurrent": {"build": b.to_json(), "same_stem": same, "rounds": 40}}), |((b, _), same), o| {
                o.label("part:concurrent_file_exports");
                super::c19::check_concurrent(b, *same, 40, o)
            });
        }));
    }
    e.par(jobs);
    let _ = std::fs::remove_dir_all(super::c19::scratch_dir());
    cleanup_cold_dir();
    e.set_exhaustive(false, "call histories and thread schedules are sampled");
}
