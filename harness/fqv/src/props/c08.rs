//! C08 — masking applies exactly the ISO pattern, only to the encoding region.

use super::common::do_build;
use crate::engine::{fail, Engine, Fail, Job, JobCtx, Obs};
use crate::fq::{BuildCase, Built};
use crate::gens::{case_in_cell, Cell, Force};
use proptest::prelude::*;
use refmodel::geom::{format_decode_nearest, geometry, mask_cond, Region};
use refmodel::tables::*;
use serde_json::{json, Value};

/// `bc.opts.mask` is ignored: the same payload/options are built with each of the 8 forced masks.
/// Calls of the crate's public (doc-hidden) masking entry point on blank matrices of QR widths, made on this thread
/// before the builds under test in one case out of four: whatever a caller did with `datamasking::mask` earlier must
/// not change how later symbols are masked.
fn foreign_mask_calls(bc: &BuildCase) {
    let h = bc.hash();
    if h % 4 != 0 {
        return;
    }
    let mode = bc.effective_mode();
    let level = bc.effective_level();
    let Some(v) = bc.opts.version.or_else(|| min_version(level, mode, bc.input.len())) else { return };
    let _ = crate::engine::catch(|| {
        for k in 0..8usize {
            if (h >> (8 + k)) & 1 == 1 {
                let mut blank = fast_qr::QRCode::default(size(v));
                fast_qr::datamasking::mask(&mut blank, crate::fq::f_mask(k as u8));
            }
        }
    });
}

pub fn check(bc: &BuildCase, fam: &str, obs: &mut Obs) -> Result<(), Fail> {
    foreign_mask_calls(bc);
    if bc.hash() % 4 == 0 {
        obs.label("after_foreign_mask_calls");
    }
    let mut built: Vec<Built> = Vec::new();
    // in one case out of three every pinned-mask build is made on a builder that was first built with ANOTHER mask pinned
    // (the setter replaces the value, it does not accumulate)
    let reuse = bc.hash() % 3 == 0;
    if reuse {
        obs.label("builder_first_built_with_another_mask");
    }
    for k in 0..8u8 {
        let mut c = bc.clone();
        c.opts.mask = Some(k);
        if reuse {
            let h = bc.hash() >> 3;
            c.warm = Some(crate::fq::Opts { mode: c.opts.mode, level: c.opts.level, version: c.opts.version, mask: Some((k + 1 + (h % 7) as u8) % 8) });
            c.resend = (h >> 4) % 2 == 0;
        }
        match do_build(&c)? {
            Ok(b) => built.push(b),
            Err(e) => {
                obs.label(&format!("no_symbol:{:?}", e));
                return Ok(());
            }
        }
    }
    // ninth build: mask left automatic ("un-masking ANY symbol with the pattern named in its format information ...")
    {
        let mut c = bc.clone();
        c.opts.mask = None;
        match do_build(&c)? {
            Ok(b) => built.push(b),
            Err(e) => {
                obs.label(&format!("no_symbol:{:?}", e));
                return Ok(());
            }
        }
    }
    let n = built[0].size();
    for (k, b) in built.iter().enumerate() {
        if b.size() != n {
            return fail("size_depends_on_mask", format!("mask {} gives size {} but mask 0 gives {} ({:?})", k, b.size(), n, bc));
        }
    }
    let v = version_from_size(n).ok_or_else(|| Fail { sig: "size".into(), msg: format!("bad size {}", n) })?;
    let g = geometry(v);
    let vals: Vec<Vec<bool>> = built.iter().map(|b| b.values()).collect();
    obs.label(&format!("family:{}", fam));
    obs.label(&format!("band:{}", crate::gens::version_band(v)));
    // all 28 pairs, every coordinate
    for a in 0..8usize {
        for b in (a + 1)..8usize {
            for r in 0..n {
                for c in 0..n {
                    let i = r * n + c;
                    let x = vals[a][i] ^ vals[b][i];
                    match g.region[i] {
                        Region::Encoding => {
                            let want = mask_cond(a as u8, r, c) ^ mask_cond(b as u8, r, c);
                            if x != want {
                                return fail(
                                    &format!("pattern:{}", if x { "spurious_flip" } else { "missing_flip" }),
                                    format!(
                                        "v{} masks {} and {}: encoding module (row {}, col {}) {} between the two builds, but the Table 10 conditions {} there ({:?})",
                                        v, a, b, r, c,
                                        if x { "differs" } else { "is equal" },
                                        if want { "disagree" } else { "agree" },
                                        bc
                                    ),
                                );
                            }
                        }
                        Region::Format => {}
                        reg => {
                            if x {
                                return fail(
                                    "function_module_masked",
                                    format!("v{} masks {} and {}: {} module (row {}, col {}) differs between the builds ({:?})", v, a, b, reg.name(), r, c, bc),
                                );
                            }
                        }
                    }
                }
            }
            obs.count("pairs_compared", 1);
        }
    }
    // equivalently: un-masking each symbol with the pattern named in ITS format information gives one matrix
    let mut unmasked: Vec<Vec<bool>> = Vec::new();
    for k in 0..9usize {
        let mut w = 0u16;
        for i in 0..15 {
            let (r, c) = g.format_pos[0][i];
            if vals[k][r * n + c] {
                w |= 1 << i;
            }
        }
        let named = format_decode_nearest(w).map(|x| x.1);
        let named = match named {
            Some(m) => m,
            None => return fail("format_unreadable", format!("v{} forced mask {}: format information unreadable ({:?})", v, k, bc)),
        };
        if k == 8 {
            obs.label(&format!("auto_mask_chose:{}", named));
        }
        let mut u = vals[k].clone();
        for &(r, c) in &g.order {
            u[r * n + c] ^= mask_cond(named, r, c);
        }
        unmasked.push(u);
    }
    for k in 1..9usize {
        for &(r, c) in &g.order {
            if unmasked[k][r * n + c] != unmasked[0][r * n + c] {
                return fail(
                    if k == 8 { "named_mask_not_applied:auto" } else { "named_mask_not_applied" },
                    format!(
                        "v{}: un-masking the forced-mask-{} (8 = automatic) symbol with the mask named in its format information differs from the un-masked mask-0 symbol at (row {}, col {}) ({:?})",
                        v, k, r, c, bc
                    ),
                );
            }
        }
    }
    // the crate's own (public, doc-hidden) masking entry point applied to the FINISHED symbols: masking symbol k once
    // more with pattern k must toggle exactly the ISO pattern on the encoding region (= give the common un-masked
    // matrix there) and leave every other module alone
    if bc.hash() % 2 == 0 {
        for k in 0..8usize {
            let mut q = (*built[k].qr).clone();
            crate::engine::catch(|| fast_qr::datamasking::mask(&mut q, crate::fq::f_mask(k as u8)))
                .map_err(|p| Fail { sig: crate::engine::panic_sig(&p), msg: format!("datamasking::mask on a finished symbol panicked: {}", p) })?;
            for r in 0..n {
                for c in 0..n {
                    let i = r * n + c;
                    let got = q.data[i].value();
                    let want = if g.region[i] == Region::Encoding { unmasked[0][i] } else { vals[k][i] };
                    if got != want {
                        return fail(
                            "mask_on_finished_symbol",
                            format!(
                                "v{}: datamasking::mask(symbol built with mask {}, pattern {}) leaves {} module (row {}, col {}) {} - expected {} ({:?})",
                                v, k, k, g.region[i].name(), r, c, if got { "dark" } else { "light" }, if want { "dark" } else { "light" }, bc
                            ),
                        );
                    }
                }
            }
        }
        obs.label("crate_mask_on_finished_symbols");
    }
    obs.nontrivial(bc.hash());
    obs.sample(&format!("band:{}", crate::gens::version_band(v)), || {
        let mut s = bc.to_sample();
        s["version_built"] = json!(v);
        s["pairs"] = json!(28);
        s
    });
    Ok(())
}

/// see the part `cold_first_use_all_masks`
pub fn cold_first_use(bc: &BuildCase, obs: &mut Obs) -> Result<(), Fail> {
    let pool: Vec<BuildCase> = (0..8u8)
        .map(|k| {
            let mut c = bc.clone();
            c.opts.mask = Some(k);
            c.warm = None;
            c.pred = 0;
            c
        })
        .collect();
    let round = super::c14::Round { pool, plans: (0..16usize).map(|t| (0..8usize).map(|j| (j + t / 2) % 8).collect()).collect(), render: false, repeat: 1 };
    super::c14::check_cold_round(&round, obs).map_err(|mut f| {
        f.sig = format!("first_use:{}", f.sig);
        f
    })
}

pub fn replay(_e: &Engine, case: &Value, obs: &mut Obs) -> Result<(), Fail> {
    let b = BuildCase::from_json(case).ok_or_else(|| Fail { sig: "bad_replay".into(), msg: "cannot parse case".into() })?;
    if case.get("cold_first_use").is_some() {
        // schedules are sampled, not controlled: several fresh processes
        for _ in 0..12 {
            cold_first_use(&b, obs)?;
        }
        return Ok(());
    }
    check(&b, "replay", obs)
}

pub fn run(e: &'static Engine) {
    e.set_rule(
        "Enumerated: all 40 versions x 4 levels (thorough: x 6 payloads); each case builds the same generated payload with all 8 \
         forced masks and compares all 28 pairs at every coordinate (up to 177x177). Oracle: on reference encoding-region modules \
         M_a xor M_b == cond_a(row, col) xor cond_b(row, col) with the conditions written from ISO Table 10; format modules may \
         differ; every other module must be identical; un-masking each symbol with the mask named in its own format information \
         gives one identical matrix. Non-trivial: every case (8 builds, 28 pairs); distinct by hash of (input, options).",
    );
    e.extend_rule("part default_level_edge (level left to its default, lengths up to beyond the default level's capacity: refused builds are skipped); part cold_first_use_all_masks (the eight pinned masks as the first use of the crate in a fresh process on 16 threads, against this process's sequential digests); extreme textures.");
    e.assume("ISO Table 10 conditions with i=row, j=column as implemented in refmodel::geom::mask_cond (the qrcode-crate self-test decodes only with these)");
    crate::engine::run_regress(e, &|c, o| replay(e, c, o));
    let per: u32 = e.tier.pick(1, 6);
    let mut jobs: Vec<Job> = Vec::new();
    for v in 1..=40usize {
        for &level in LEVELS.iter() {
            jobs.push(Box::new(move |jc: &mut JobCtx| {
                let strat = (0usize..3, any::<bool>(), any::<bool>()).prop_flat_map(move |(mi, fm, fv)| {
                    let cell = Cell { version: v, level, mode: Mode::from_index(mi) };
                    case_in_cell(cell, Force { mode: fm, level: true, version: fv }, None)
                });
                jc.run_prop(level as u64 + 1, &strat, per, |(c, _)| c.to_json(), |(c, fam), o| check(c, fam, o));
            }));
        }
    }
    e.par(jobs);
    // automatic-mask sweep in the versions where exact penalty ties occur, plus steered matrices
    let total: u32 = e.tier.pick(9600, 128000);
    let shards = e.tier.pick(32u32, 96);
    let mut jobs: Vec<Job> = Vec::new();
    for _ in 0..shards {
        jobs.push(Box::new(move |jc: &mut JobCtx| {
            let strat = crate::gens::auto_mask_small();
            jc.run_prop(2 << 20, &strat, total / shards, |(c, _, _)| c.to_json(), |(c, fam, _), o| {
                o.label("part:auto_mask_small");
                check(c, fam, o)
            });
            let strat = crate::gens::steered_case(1, 40, true);
            jc.run_prop(3 << 20, &strat, total / shards / 16, |(c, _)| c.to_json(), |(c, fam), o| {
                o.label("part:steered");
                check(c, fam, o)
            });
        }));
    }
    e.par(jobs);
    // option combinations around the edge of the domain: level left to its default with a pinned version and a length
    // anywhere from empty to beyond what the version holds at the default level (those builds are refused - then there
    // is nothing to compare - but IF symbols come back they differ by their masks like any others)
    let total: u32 = e.tier.pick(1600, 24000);
    let mut jobs: Vec<Job> = Vec::new();
    for _ in 0..shards {
        jobs.push(Box::new(move |jc: &mut JobCtx| {
            let strat = (prop_oneof![3 => 1usize..=8, 1 => 1usize..=40], 0usize..3, any::<u16>(), any::<bool>()).prop_flat_map(|(v, mi, lsel, pin)| {
                let mode = Mode::from_index(mi);
                let cap_q = capacity(v, Level::Q, mode);
                let cap_l = capacity(v, Level::L, mode);
                let len = match lsel % 4 {
                    0 => crate::gens::pick(lsel >> 2, cap_q + 1),
                    1 => cap_q + 1 + crate::gens::pick(lsel >> 2, cap_l - cap_q),
                    2 => cap_q + 1,
                    _ => cap_l,
                };
                crate::gens::payload(mode, len, false).prop_map(move |(input, _)| BuildCase::new(input, crate::fq::Opts { mode: Some(mode), level: None, version: if pin { Some(v) } else { None }, mask: None }))
            });
            jc.run_prop(6 << 20, &strat, total / shards, |c| c.to_json(), |c, o| {
                o.label("part:default_level_edge");
                check(c, "default_level_edge", o)
            });
        }));
    }
    e.par(jobs);
    // The eight pinned-mask builds of one payload as the FIRST use of the crate in a fresh process, on 16 threads released
    // together (C14's cold concurrent round): whatever the masks initialise lazily is initialised under contention. The
    // digests must be those of this process's sequential builds (which the parts above compare with the ISO patterns).
    let rounds: u32 = e.tier.pick(24, 320);
    let mut jobs: Vec<Job> = Vec::new();
    for _ in 0..4 {
        jobs.push(Box::new(move |jc: &mut JobCtx| {
            let strat = (1usize..=6, 0usize..4, 0usize..3, any::<bool>()).prop_flat_map(|(v, li, mi, fv)| {
                let cell = Cell { version: v, level: Level::from_index(li), mode: Mode::from_index(mi) };
                case_in_cell(cell, Force { mode: false, level: true, version: fv }, Some(0)).prop_map(|(c, _)| c)
            });
            jc.run_prop(8 << 20, &strat, rounds / 4, |c| { let mut j = c.to_json(); j["cold_first_use"] = json!(true); j }, |c, o| {
                o.label("part:cold_first_use_all_masks");
                cold_first_use(c, o)
            });
        }));
    }
    e.par(jobs);
    super::common::extreme_parts(e, check);
    e.put("cells_total", json!(160));
    e.set_exhaustive(true, "40 versions x 4 levels x all 28 mask pairs x every coordinate of each symbol; payloads are sampled");
}
