//! C09 — automatic mode is the most compact mode that can represent the input.

use super::common::do_build;
use crate::engine::{fail, hex, unhex, Engine, Fail, Job, JobCtx, Obs, Tier};
use crate::ensure;
use crate::fq::{mode_of, short_bytes, BuildCase, Opts};
use crate::gens::pick;
use proptest::collection::vec;
use proptest::prelude::*;
use refmodel::codec::decode_plain;
use refmodel::tables::*;
use serde_json::{json, Value};

pub fn to_json(input: &Vec<u8>) -> Value {
    json!({"input_hex": hex(input), "input_len": input.len(), "input_preview": short_bytes(input)})
}

fn class_of(b: u8) -> usize {
    if b.is_ascii_digit() {
        0
    } else if alnum_value(b).is_some() {
        1
    } else {
        2
    }
}

/// bytes that sit on a class boundary in ASCII order
const BOUNDARY: &[u8] = b"/09:@AZ[`az{ $%*+-.,#&'()!\"\x00\x1f\x7f\x80\xff;<=>?";

pub fn check(input: &Vec<u8>, obs: &mut Obs) -> Result<(), Fail> {
    let want = classify(input);
    // level L so that long strings still fit; mode, version and mask automatic / irrelevant
    // one case in three pins the version to the smallest one that holds the input in its most compact mode (a wider mode
    // would not fit there), one in three leaves level and version automatic when the input fits at the default level
    let hsel = crate::engine::hash_bytes(input) >> 20;
    let pinned = if hsel % 3 == 0 { min_version(Level::L, want, input.len()) } else { None };
    let default_level = hsel % 3 == 1 && min_version(Level::Q, want, input.len()).is_some();
    if pinned.is_some() {
        obs.label("version_pinned_to_minimum_of_compact_mode");
    }
    let mut bc = BuildCase::new(input.clone(), Opts { mode: None, level: if default_level { None } else { Some(Level::L) }, version: pinned, mask: Some((input.len() % 8) as u8) });
    // half of the cases are built right after a related build on the same thread (the input extended by a character of
    // a wider / the same class, the input without its last character, same length with other content, same input under
    // other options): the mode must be decided from the bytes of THIS input alone
    bc.pred = [0u8, 0, 0, 0, 2, 7, 6, 4, 3, 5, 1, 2][(crate::engine::hash_bytes(input) % 12) as usize];
    if bc.pred != 0 {
        obs.label("after_related_build");
    }
    let built = match do_build(&bc)? {
        Ok(b) => b,
        Err(e) => {
            // only acceptable when the input really exceeds V40-L capacity in its most compact mode
            ensure!(
                min_version(bc.effective_level(), want, input.len()).is_none(),
                "rejected",
                "automatic mode rejects an input of {} bytes ({}) that fits as {}: {:?}",
                input.len(),
                short_bytes(input),
                want.name(),
                e
            );
            obs.label("over_capacity");
            return Ok(());
        }
    };
    let got = built.qr.mode.map(mode_of);
    ensure!(
        got == Some(want),
        &format!("mode:{}_instead_of_{}", got.map(|m| m.name()).unwrap_or("None"), want.name()),
        "input {} ({} bytes): automatic mode chose {:?}, the most compact representable mode is {}",
        short_bytes(input),
        input.len(),
        got,
        want.name()
    );
    // the mode indicator physically in the symbol, and the characters, unaltered
    let d = decode_plain(&built.values(), built.size())
        .map_err(|e| Fail { sig: "undecodable".into(), msg: format!("input {}: symbol does not decode: {}", short_bytes(input), e) })?;
    ensure!(
        d.parsed.segments.len() == 1 && d.parsed.segments[0].mode == want,
        "indicator",
        "input {}: symbol carries {:?}, expected one {} segment",
        short_bytes(input),
        d.parsed.segments.iter().map(|s| s.mode).collect::<Vec<_>>(),
        want.name()
    );
    if d.parsed.segments[0].bytes != *input {
        return fail("altered", format!("input {}: decoded {} — a character was altered or dropped", short_bytes(input), short_bytes(&d.parsed.segments[0].bytes)));
    }
    let mut classes = [false; 3];
    for &b in input.iter() {
        classes[class_of(b)] = true;
    }
    let n_classes = classes.iter().filter(|&&x| x).count();
    let has_boundary = input.iter().any(|b| BOUNDARY.contains(b));
    obs.label(&format!("mode:{}", want.name()));
    obs.label(&format!("classes_present:{}", n_classes));
    if n_classes >= 2 || has_boundary {
        obs.nontrivial(crate::engine::hash_bytes(input));
    }
    Ok(())
}

pub fn replay(_e: &Engine, case: &Value, obs: &mut Obs) -> Result<(), Fail> {
    let input = case["input_hex"].as_str().and_then(unhex).ok_or_else(|| Fail { sig: "bad_replay".into(), msg: "cannot parse case".into() })?;
    check(&input, obs)
}

fn class_byte(class: usize) -> BoxedStrategy<u8> {
    match class {
        0 => prop_oneof![3 => b'0'..=b'9', 1 => Just(b'0'), 1 => Just(b'9')].boxed(),
        1 => prop_oneof![3 => (10usize..45).prop_map(|i| ALNUM_SET[i]), 1 => Just(b'A'), 1 => Just(b'Z'), 1 => Just(b':'), 1 => Just(b' '), 1 => Just(b'/')].boxed(),
        _ => prop_oneof![
            3 => any::<u8>().prop_map(|b| if alnum_value(b).is_some() { b.wrapping_add(0x61) } else { b }),
            1 => Just(b'a'), 1 => Just(b'z'), 1 => Just(b','), 1 => Just(b'@'), 1 => Just(b'['), 1 => Just(b'`'),
            1 => Just(0x7fu8), 1 => Just(0x80u8), 1 => Just(0xffu8), 1 => Just(0u8), 1 => Just(b'?'), 1 => Just(b'='), 1 => Just(b';'), 1 => Just(b'#')
        ]
        .boxed(),
    }
}

/// Long inputs of one compact class (digits / the 45-set) with ONE generated byte of a generated class at the first,
/// last, middle or a generated position. Lengths up to beyond the V40-L capacity of every class (Numeric 7089,
/// Alphanumeric 4296, Byte 2953): an input that exceeds the capacity of its most compact mode must be refused with the
/// documented error, a shorter one built.
pub fn long_with_intruder() -> BoxedStrategy<Vec<u8>> {
    (0usize..2, prop_oneof![3 => 100usize..2900, 2 => 2900usize..4400, 1 => 4400usize..7200], 0usize..3, any::<u16>(), any::<u8>())
        .prop_flat_map(|(base, len, intr_class, pos, where_)| {
            (vec(class_byte(base), len), class_byte(intr_class)).prop_map(move |(mut s, b)| {
                let p = match where_ % 4 {
                    0 => 0,
                    1 => s.len() - 1,
                    2 => s.len() / 2,
                    _ => pick(pos, s.len()),
                };
                s[p] = b;
                s
            })
        })
        .boxed()
}

/// Inputs made of a few RUNS of one class each, with run lengths at the sizes a chunked / vectorised / word-wise
/// classifier works in (1..9, and 2^k - 1, 2^k, 2^k + 1 for 16..4096, plus generated lengths): e.g. digits, then
/// exactly 256 bytes outside the 45-set, then a few alphanumeric characters. Content per run is one repeated byte or
/// generated bytes of the class.
pub fn class_runs() -> BoxedStrategy<Vec<u8>> {
    let run_len = prop_oneof![
        3 => 1usize..10,
        6 => (4u32..=12, 0usize..3).prop_map(|(k, d)| (1usize << k) + d - 1),
        2 => 10usize..700,
    ];
    let run = (0usize..3, run_len, any::<bool>()).prop_flat_map(|(class, len, constant)| {
        if constant {
            class_byte(class).prop_map(move |b| vec![b; len]).boxed()
        } else {
            vec(class_byte(class), len).boxed()
        }
    });
    vec(run, 1..5)
        .prop_map(|runs| {
            let mut s: Vec<u8> = runs.concat();
            s.truncate(7200);
            s
        })
        .boxed()
}

pub fn run(e: &'static Engine) {
    e.set_rule(
        "Exhaustive: all 256 strings of length 1 and all 65 536 strings of length 2; all 3^k class patterns (digit / alnum-only / \
         other) for k = 3..8 with generated representatives per class incl. the boundary bytes / : @ [ ` a z , 0x7f 0x80 0xff; all \
         256 byte values at every position of context strings of length 3..16 (all-digit, all-alnum, mixed). Generated: long strings \
         (100..7200) of one class with a generated intruder byte at a generated position; 1..4 runs of one class each with run lengths 1..9, 2^k-1 / 2^k / 2^k+1 (k = 4..12) and generated, constant or varied content; realistic payloads. Oracle: reference classifier written \
         from the 45-character list; QRCode.mode == oracle == mode indicator decoded from the symbol; no panic, no rejection, \
         round trip returns the input. Non-trivial: >= 2 classes present or a boundary byte present; distinct by content.",
    );
    e.assume("the 45-character set is 0-9 A-Z space $ % * + - . / : (ISO/IEC 18004 Table 5)");
    crate::engine::run_regress(e, &|c, o| replay(e, c, o));
    let mut jobs: Vec<Job> = Vec::new();
    // length 1 and 2, exhaustive
    for a in 0..=255u16 {
        jobs.push(Box::new(move |jc: &mut JobCtx| {
            if a == 0 {
                jc.run_case(&Vec::new(), to_json, |c, o| {
                    o.label("part:empty");
                    check(c, o)
                });
                for b in 0..=255u8 {
                    jc.run_case(&vec![b], to_json, |c, o| {
                        o.label("part:len1");
                        check(c, o)
                    });
                }
            }
            for b in 0..=255u8 {
                let s = vec![a as u8, b];
                jc.run_case(&s, to_json, |c, o| {
                    o.label("part:len2");
                    if a as u8 == b'7' && b == b'a' {
                        o.sample("len2", || to_json(c));
                    }
                    check(c, o)
                });
            }
        }));
    }
    e.par(jobs);
    // class patterns k = 3..8
    let mut jobs: Vec<Job> = Vec::new();
    for k in 3..=8u32 {
        let n = 3usize.pow(k);
        let chunks = if k >= 7 { 8 } else { 1 };
        for ch in 0..chunks {
            jobs.push(Box::new(move |jc: &mut JobCtx| {
                for p in (0..n).filter(|p| p % chunks == ch) {
                    let mut digits = Vec::new();
                    let mut x = p;
                    for _ in 0..k {
                        digits.push(x % 3);
                        x /= 3;
                    }
                    let strat: Vec<BoxedStrategy<u8>> = digits.iter().map(|&c| class_byte(c)).collect();
                    let reps = jc.engine.tier.pick(1, 4);
                    jc.run_prop(((k as u64) << 32) | p as u64, &strat, reps, to_json, |c, o| {
                        o.label(&format!("part:class_patterns_k{}", k));
                        o.sample(&format!("pattern_k{}", k), || to_json(c));
                        check(c, o)
                    });
                }
            }));
        }
    }
    e.par(jobs);
    // every byte value at every position of context strings
    let contexts: u32 = e.tier.pick(48, 600);
    let mut jobs: Vec<Job> = Vec::new();
    for ci in 0..contexts {
        jobs.push(Box::new(move |jc: &mut JobCtx| {
            let kind = ci % 3;
            let strat = (3usize..=16).prop_flat_map(move |len| match kind {
                0 => vec(class_byte(0), len).boxed(),
                1 => vec(class_byte(1), len).boxed(),
                _ => vec(prop_oneof![class_byte(0), class_byte(1)], len).boxed(),
            });
            // draw one context with proptest, then enumerate positions x values deterministically
            let ctx_cell: std::cell::RefCell<Vec<u8>> = std::cell::RefCell::new(Vec::new());
            jc.run_prop(ci as u64 + (9 << 40), &strat, 1, to_json, |c, o| {
                *ctx_cell.borrow_mut() = c.clone();
                o.label("part:context_drawn");
                check(c, o)
            });
            let ctx = ctx_cell.into_inner();
            for pos in 0..ctx.len() {
                for b in 0..=255u8 {
                    let mut s = ctx.clone();
                    s[pos] = b;
                    jc.run_case(&s, to_json, |c, o| {
                        o.label("part:every_byte_every_position");
                        if b == b',' && pos == 1 {
                            o.sample("byte_at_position", || to_json(c));
                        }
                        check(c, o)
                    });
                }
            }
        }));
    }
    e.par(jobs);
    // long strings with one intruder
    let total: u32 = e.tier.pick(6400, 96000);
    let shards = e.tier.pick(16u32, 64);
    let mut jobs: Vec<Job> = Vec::new();
    for _ in 0..shards {
        jobs.push(Box::new(move |jc: &mut JobCtx| {
            let strat = long_with_intruder();
            jc.run_prop(1 << 50, &strat, total / shards, to_json, |c, o| {
                o.label("part:long_with_intruder");
                o.sample("long_with_intruder", || to_json(c));
                check(c, o)
            });
        }));
    }
    e.par(jobs);
    // realistic payloads (links in either case, mail / phone / Wi-Fi / vCard, key=value, serials, times, dates)
    let total: u32 = e.tier.pick(16000, 192000);
    let shards = e.tier.pick(32u32, 96);
    let mut jobs: Vec<Job> = Vec::new();
    for _ in 0..shards {
        jobs.push(Box::new(move |jc: &mut JobCtx| {
            let strat = crate::gens::realistic_payload();
            jc.run_prop(2 << 50, &strat, total / shards, to_json, |c, o| {
                o.label("part:realistic_payloads");
                o.sample("realistic", || to_json(c));
                check(c, o)
            });
        }));
    }
    e.par(jobs);
    // runs of one class each with lengths at chunk / word sizes
    let total: u32 = e.tier.pick(16000, 192000);
    let shards = e.tier.pick(32u32, 96);
    let mut jobs: Vec<Job> = Vec::new();
    for _ in 0..shards {
        jobs.push(Box::new(move |jc: &mut JobCtx| {
            let strat = class_runs();
            jc.run_prop(3 << 50, &strat, total / shards, to_json, |c, o| {
                o.label("part:class_runs");
                o.sample("class_runs", || to_json(c));
                check(c, o)
            });
        }));
    }
    e.par(jobs);
    let _ = Tier::Quick;
    e.set_exhaustive(true, "all strings of length 0, 1 and 2; all 3^k class patterns for k=3..8 (representatives sampled); all 256 byte values at every position of the drawn context strings");
}
