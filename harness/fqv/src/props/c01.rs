//! C01 — every symbol built decodes back to exactly the input bytes.

use super::common::{do_build, label_case};
use crate::engine::{Engine, Fail, Job, JobCtx, Obs};
use crate::ensure;
use crate::fq::BuildCase;
use crate::gens::{any_case, case_in_cell, Cell, Force};
use proptest::prelude::*;
use refmodel::codec::decode_plain;
use refmodel::tables::classify;
use refmodel::tables::{Level, Mode, LEVELS};
use serde_json::Value;

pub fn check(case: &BuildCase, fam: &str, obs: &mut Obs) -> Result<(), Fail> {
    let built = match do_build(case)? {
        Ok(b) => b,
        Err(e) => {
            // no QR code returned: outside C01's domain (C05 decides whether the error is right)
            obs.label(&format!("no_symbol:{:?}", e));
            return Ok(());
        }
    };
    label_case(obs, case, fam, Some(&built));
    if let Some(d) = built.index_view_differs() {
        return crate::engine::fail("index_view", format!("the row view of the symbol differs from its data: {} (case {:?})", d, case));
    }
    let vals = built.values();
    let d = match decode_plain(&vals, built.size()) {
        Ok(d) => d,
        Err(e) => return crate::engine::fail("undecodable", format!("reference decoding fails: {} (case {:?})", e, case)),
    };
    ensure!(
        d.parsed.segments.len() == 1,
        "segment_count",
        "decoded {} segments instead of exactly one (case {:?}; segments {:?})",
        d.parsed.segments.len(),
        case,
        d.parsed.segments.iter().map(|s| (s.mode, s.count)).collect::<Vec<_>>()
    );
    let seg = &d.parsed.segments[0];
    if seg.bytes != case.input {
        let first = seg.bytes.iter().zip(case.input.iter()).position(|(a, b)| a != b);
        return crate::engine::fail(
            "payload_mismatch",
            format!(
                "decoded payload differs from the input: decoded len {} vs input len {}, first difference at {:?} (v{} {} mask {}; case {:?})",
                seg.bytes.len(),
                case.input.len(),
                first,
                d.read.version,
                d.read.level.name(),
                d.read.mask,
                case
            ),
        );
    }
    if !case.input.is_empty() {
        obs.nontrivial(case.hash());
    }
    obs.sample(&format!("{}|{}", fam, if case.opts.version.is_some() { "forced_v" } else { "auto_v" }), || {
        let mut s = case.to_sample();
        s["decoded_version"] = d.read.version.into();
        s["decoded_level"] = d.read.level.name().into();
        s["decoded_mask"] = d.read.mask.into();
        s
    });
    Ok(())
}

pub fn replay(_e: &Engine, case: &Value, obs: &mut Obs) -> Result<(), Fail> {
    let c = BuildCase::from_json(case).ok_or_else(|| Fail { sig: "bad_replay".into(), msg: "cannot parse case".into() })?;
    check(&c, "replay", obs)
}

pub fn run(e: &'static Engine) {
    e.set_rule(
        "Enumerated: every (version, level) x {8 forced masks, auto} with the mode class and the forced/automatic mode, level and \
         version flags cycling so that all 480 (version, level, mode) cells occur (thorough: the complete product x 6 mode settings x \
         forced/auto version); per combination proptest draws boundary-biased lengths inside the cell and payloads from the class \
         families. Generated: fully random valid (cell, options, length, payload). Oracle: plain ISO decode by the reference model \
         (format info -> unmask -> read-out -> de-interleave -> segment parse) must give exactly one segment equal to the input. \
         Non-trivial: a symbol was returned and the input is non-empty; distinct by hash of (input, options).",
    );
    e.extend_rule("related predecessor builds on the thread (incl. a build that panics mid-encoding and one that fails) and builder warm-up (any mode, only changed setters re-sent) on every generated case; payload families UTF-8 text, special tokens, class runs, block look-alikes; enumerated extreme textures; a part with forced modes the input may not fit and a part just beyond a pinned version's capacity (refused on a correct tree; a returned symbol must decode); the row view qr[r] equals data.");
    e.assume("reference decoder (refmodel) is correct; anchored by the qrcode-crate self-test and its own unit tests");
    crate::engine::run_regress(e, &|c, o| replay(e, c, o));
    let per_combo: u32 = e.tier.pick(2, 2);
    let mut jobs: Vec<Job> = Vec::new();
    // enumerated part, one job per version (large versions first for load balance)
    for v in 1..=40usize {
        jobs.push(Box::new(move |jc: &mut JobCtx| {
            let mut salt = 0u64;
            for (li, &level) in LEVELS.iter().enumerate() {
                for mk in 0..9usize {
                    let mask = if mk == 8 { None } else { Some(mk as u8) };
                    let combos: Vec<(Mode, Force)> = if jc.engine.tier == crate::engine::Tier::Quick {
                        let k = v + li + mk;
                        let mode = Mode::from_index(k % 3);
                        // cycle all 8 force combinations over (v, level, mask)
                        let f = (v * 3 + li * 5 + mk) % 8;
                        vec![(mode, Force { mode: f & 1 != 0, level: f & 2 != 0, version: f & 4 != 0 })]
                    } else {
                        let mut c = Vec::new();
                        for mi in 0..3 {
                            for fm in [false, true] {
                                for fv in [false, true] {
                                    c.push((Mode::from_index(mi), Force { mode: fm, level: (mi + mk) % 2 == 0, version: fv }));
                                }
                            }
                        }
                        c
                    };
                    for (mode, force) in combos {
                        let cell = Cell { version: v, level, mode };
                        let strat = case_in_cell(cell, force, mask);
                        salt += 1;
                        jc.run_prop(salt, &strat, per_combo, |(c, _)| c.to_json(), |(c, fam), o| {
                            o.label("part:enumerated");
                            check(c, fam, o)
                        });
                    }
                }
            }
        }));
    }
    e.par(jobs);
    // generated part
    let total: u32 = e.tier.pick(9600, 96000);
    let shards = e.tier.pick(16u32, 64);
    let mut jobs: Vec<Job> = Vec::new();
    for _ in 0..shards {
        jobs.push(Box::new(move |jc: &mut JobCtx| {
            let strat = any_case();
            jc.run_prop(1 << 20, &strat, total / shards, |(c, _, _)| c.to_json(), |(c, fam, _), o| {
                o.label("part:generated");
                check(c, fam, o)
            });
        }));
    }
    e.par(jobs);
    // automatic-mask sweep over small/medium versions (penalty ties), padded forced versions, steered matrices
    let total: u32 = e.tier.pick(64000, 480000);
    let shards = e.tier.pick(32u32, 96);
    let mut jobs: Vec<Job> = Vec::new();
    for _ in 0..shards {
        jobs.push(Box::new(move |jc: &mut JobCtx| {
            let strat = crate::gens::auto_mask_small();
            jc.run_prop(2 << 20, &strat, total / shards, |(c, _, _)| c.to_json(), |(c, fam, _), o| {
                o.label("part:auto_mask_small");
                check(c, fam, o)
            });
            let strat = crate::gens::padded_forced();
            jc.run_prop(3 << 20, &strat, total / shards / 8, |(c, _, _)| c.to_json(), |(c, fam, _), o| {
                o.label("part:padded_forced_version");
                check(c, fam, o)
            });
            let strat = crate::gens::steered_case(1, 40, true);
            jc.run_prop(4 << 20, &strat, total / shards / 16, |(c, _)| c.to_json(), |(c, fam), o| {
                o.label("part:steered");
                check(c, fam, o)
            });
        }));
    }
    e.par(jobs);
    // A compact mode forced on input that does not fit its alphabet (lower-case text forced to Alphanumeric, text with
    // one letter forced to Numeric ...): the crate documents a panic, and then there is no symbol and nothing to check -
    // but IF a symbol comes back it must carry the input like any other, which it cannot in that mode.
    let total: u32 = e.tier.pick(3200, 48000);
    let shards = e.tier.pick(16u32, 64);
    let mut jobs: Vec<Job> = Vec::new();
    for _ in 0..shards {
        jobs.push(Box::new(move |jc: &mut JobCtx| {
            let strat = (
                prop_oneof![
                    2 => crate::gens::realistic_payload(),
                    1 => proptest::collection::vec(b'a'..=b'z', 1..40),
                    1 => crate::gens::with_token(proptest::collection::vec(b'0'..=b'9', 1..60).boxed()),
                    1 => crate::gens::class_runs_of(24),
                ],
                any::<bool>(),
                prop_oneof![Just(None), (0usize..4).prop_map(|l| Some(Level::from_index(l)))],
                prop_oneof![3 => Just(None), 1 => (1usize..=40).prop_map(Some)],
                prop_oneof![Just(None), (0u8..8).prop_map(Some)],
                any::<u16>(),
            )
                .prop_map(|(input, numeric, level, version, mask, sel)| {
                    let class = classify(&input);
                    // the widest compact mode the input does NOT fit
                    let mode = match (class, numeric) {
                        (Mode::Byte, false) => Mode::Alphanumeric,
                        (Mode::Byte, true) | (Mode::Alphanumeric, _) => Mode::Numeric,
                        (Mode::Numeric, _) => Mode::Numeric,
                    };
                    BuildCase::new(input, crate::fq::Opts { mode: Some(mode), level, version, mask }).with_warm_sel(sel)
                });
            jc.run_prop(9 << 20, &strat, total / shards, |c| c.to_json(), |c, o| {
                o.label("part:forced_mode_the_input_may_not_fit");
                check(c, "unfit_forced_mode", o)
            });
        }));
    }
    e.par(jobs);
    // Just beyond capacity with the version pinned (every cell, capacity + 1 and + 2 characters): these builds are refused
    // on a correct tree (nothing to decode) - IF a symbol is returned it must carry the whole input like any other.
    let mut jobs: Vec<Job> = Vec::new();
    for v in 1..=40usize {
        jobs.push(Box::new(move |jc: &mut JobCtx| {
            for &level in LEVELS.iter() {
                for mi in 0..3 {
                    let mode = Mode::from_index(mi);
                    let cell = Cell { version: v, level, mode };
                    for extra in 1..=2usize {
                        let strat = crate::gens::payload(mode, cell.cap() + extra, true).prop_map(move |(input, _)| {
                            BuildCase::new(input, crate::fq::Opts { mode: if (v + extra) % 2 == 0 { Some(mode) } else { None }, level: Some(level), version: Some(v), mask: Some(((v + mi) % 8) as u8) })
                        });
                        jc.run_prop((v * 100 + mi * 10 + extra) as u64 + (7 << 30), &strat, 1, |c| c.to_json(), |c, o| {
                            o.label("part:just_beyond_capacity_pinned_version");
                            check(c, "beyond_capacity", o)
                        });
                    }
                }
            }
        }));
    }
    e.par(jobs);
    let _ = Level::L;
    e.put("cells_total", 480.into());
    super::common::extreme_parts(e, check);
    e.set_exhaustive(false, "configuration cells are enumerated completely (160 version/level pairs x 9 mask settings; thorough: x 12 mode/version settings); payload content and length are sampled");
}
