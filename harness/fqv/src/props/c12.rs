//! C12 — SVG output is well-formed and draws exactly the dark modules.

use super::common::do_build;
use crate::engine::{catch, fail, panic_sig, Engine, Fail, Job, JobCtx, Obs};
use crate::ensure;
use crate::fq::{BuildCase, Built};
use crate::gens::{case_in_cell, Cell, Force};
use crate::svgcase::*;
use crate::svgpath;
use fast_qr::convert::svg::SvgBuilder;
use proptest::collection::vec;
use proptest::prelude::*;
use serde_json::{json, Value};

#[derive(Clone, Debug)]
pub struct Case {
    pub build: BuildCase,
    pub cfg: SvgCfg,
}

pub fn to_json(c: &Case) -> Value {
    json!({"build": c.build.to_json(), "svg": c.cfg.to_json()})
}

pub fn from_json(v: &Value) -> Option<Case> {
    Some(Case { build: BuildCase::from_json(v.get("build")?)?, cfg: SvgCfg::from_json(v.get("svg")?)? })
}

/// Everything C12 states about one SVG string for a given matrix and configuration.
pub fn check_svg(svg: &str, vals: &[bool], n: usize, cfg: &SvgCfg, obs: &mut Obs) -> Result<(), Fail> {
    let margin = cfg.margin_eff();
    let side = n + 2 * margin;
    let doc = roxmltree::Document::parse(svg).map_err(|e| Fail {
        sig: if cfg.image.as_deref().map(has_xml_special).unwrap_or(false) { "ill_formed:image_string".into() } else { "ill_formed".into() },
        msg: format!("SVG is not well-formed XML: {} (config {})", e, cfg.to_json()),
    })?;
    let root = doc.root_element();
    ensure!(root.tag_name().name() == "svg", "root", "root element is {:?}", root.tag_name().name());
    let vb = root.attribute("viewBox").unwrap_or("");
    ensure!(vb == format!("0 0 {0} {0}", side), "viewbox", "viewBox is {:?}, expected \"0 0 {} {}\" (size {} + 2 x margin {})", vb, side, side, n, margin);
    let elems: Vec<roxmltree::Node> = root.children().filter(|c| c.is_element()).collect();
    ensure!(!elems.is_empty() && elems[0].tag_name().name() == "rect", "background", "first child is not the background rect");
    let bg = &elems[0];
    let want_px = format!("{}px", side);
    ensure!(
        bg.attribute("width") == Some(want_px.as_str()) && bg.attribute("height") == Some(want_px.as_str()),
        "background_size",
        "background rect is {:?} x {:?}, expected {} x {}",
        bg.attribute("width"),
        bg.attribute("height"),
        want_px,
        want_px
    );
    let want_bg = cfg.background.as_ref().map(|c| c.expected()).unwrap_or_else(|| "#ffffff".into());
    ensure!(bg.attribute("fill") == Some(want_bg.as_str()), "background_color", "background fill is {:?}, expected {:?}", bg.attribute("fill"), want_bg);
    // layers
    let layers: Vec<(usize, Option<ColorSpec>)> = if cfg.layers.is_empty() { vec![(0, None)] } else { cfg.layers.clone() };
    let paths: Vec<&roxmltree::Node> = elems.iter().filter(|e| e.tag_name().name() == "path").collect();
    ensure!(paths.len() == layers.len(), "layer_count", "{} path elements for {} configured layers", paths.len(), layers.len());
    // paths come right after the background, in call order
    for (k, e) in elems.iter().enumerate().skip(1).take(layers.len()) {
        ensure!(e.tag_name().name() == "path", "layer_order", "child {} is <{}>, expected the path of layer {}", k, e.tag_name().name(), k - 1);
    }
    let module_col = cfg.module_color.as_ref().map(|c| c.expected()).unwrap_or_else(|| "#000000".into());
    let dark_count = vals.iter().filter(|&&b| b).count();
    for (li, (si, col)) in layers.iter().enumerate() {
        let p = paths[li];
        let want_fill = col.as_ref().map(|c| c.expected()).unwrap_or_else(|| module_col.clone());
        ensure!(
            p.attribute("fill") == Some(want_fill.as_str()),
            "layer_color",
            "layer {} ({}) fill is {:?}, expected {:?}",
            li,
            SHAPE_NAMES[*si],
            p.attribute("fill"),
            want_fill
        );
        let d = p.attribute("d").unwrap_or("");
        let subs = svgpath::parse(d).map_err(|e| Fail { sig: "path_syntax".into(), msg: format!("layer {} path data: {}", li, e) })?;
        let mut seen = vec![0u8; n * n];
        for s in &subs {
            let (cx, cy) = s.centre();
            let (fx, fy) = (cx.floor(), cy.floor());
            let inside = fx >= margin as f64 && fy >= margin as f64 && fx < (margin + n) as f64 && fy < (margin + n) as f64;
            if !inside {
                return fail("quiet_zone", format!("layer {} ({}): a sub-path centred at ({:.2}, {:.2}) lies outside the symbol (margin {}, size {})", li, SHAPE_NAMES[*si], cx, cy, margin, n));
            }
            let (c, r) = (fx as usize - margin, fy as usize - margin);
            if !vals[r * n + c] {
                return fail("light_module_drawn", format!("layer {} ({}): sub-path drawn for light module (row {}, col {})", li, SHAPE_NAMES[*si], r, c));
            }
            seen[r * n + c] += 1;
            if seen[r * n + c] > 1 {
                return fail("duplicate_subpath", format!("layer {} ({}): module (row {}, col {}) drawn more than once", li, SHAPE_NAMES[*si], r, c));
            }
            // the sub-path stays inside its own cell (anchored at column+margin, row+margin)
            let (x0, y0, x1, y1) = s.bbox();
            let tol = 0.11;
            ensure!(
                x0 >= fx - tol && y0 >= fy - tol && x1 <= fx + 1.0 + tol && y1 <= fy + 1.0 + tol,
                "anchor",
                "layer {} ({}): sub-path for (row {}, col {}) spans x {:.2}..{:.2}, y {:.2}..{:.2}, not inside its cell at ({}, {})",
                li, SHAPE_NAMES[*si], r, c, x0, x1, y0, y1, fx, fy
            );
            // coarse shape-kind discriminators that follow from the shape names only
            let (w, h) = (x1 - x0, y1 - y0);
            let fill_ratio = if w > 0.0 && h > 0.0 { s.area() / (w * h) } else { 0.0 };
            let ok = match *si {
                3 => w < h * 0.95,                               // Vertical: narrower than tall
                4 => h < w * 0.95,                               // Horizontal: wider than tall
                5 => (w - h).abs() < 0.15 && fill_ratio < 0.65,  // Diamond: pointy
                1 => (w - h).abs() < 0.15 && (0.65..0.9).contains(&fill_ratio), // Circle: round
                _ => (w - h).abs() < 0.15 && fill_ratio >= 0.9,  // Square / RoundedSquare: boxy
            };
            if !ok {
                return fail(
                    &format!("shape_kind:{}", SHAPE_NAMES[*si]),
                    format!("layer {} configured as {} draws a {:.2} x {:.2} outline with fill ratio {:.2} at (row {}, col {})", li, SHAPE_NAMES[*si], w, h, fill_ratio, r, c),
                );
            }
        }
        let drawn = seen.iter().filter(|&&k| k == 1).count();
        if drawn != dark_count {
            let miss = (0..n * n).find(|&i| vals[i] && seen[i] == 0).unwrap_or(0);
            return fail("dark_module_missing", format!("layer {} ({}): {} sub-paths for {} dark modules; e.g. (row {}, col {}) is dark but not drawn", li, SHAPE_NAMES[*si], drawn, dark_count, miss / n, miss % n));
        }
        obs.count("subpaths_checked", subs.len() as u64);
    }
    // image
    let images: Vec<&roxmltree::Node> = elems.iter().filter(|e| e.tag_name().name() == "image").collect();
    let rects = elems.iter().filter(|e| e.tag_name().name() == "rect").count();
    match &cfg.image {
        Some(img) => {
            ensure!(images.len() == 1, "image_count", "{} image elements, expected exactly one", images.len());
            let href = images[0].attribute("href").or_else(|| images[0].attributes().iter().find(|a| a.name() == "href").map(|a| a.value()));
            ensure!(
                href == Some(img.as_str()),
                "image_href",
                "image href parses back as {:?}, the configured reference is {:?}",
                href,
                img
            );
            ensure!(rects == 2, "image_frame", "{} rect elements with an image configured, expected background + one frame", rects);
            ensure!(elems.len() == 1 + layers.len() + 2, "extra_elements", "{} top-level elements, expected {}", elems.len(), 1 + layers.len() + 2);
        }
        None => {
            ensure!(images.is_empty() && rects == 1, "spurious_image", "{} image / {} rect elements without an image configured", images.len(), rects);
            ensure!(elems.len() == 1 + layers.len(), "extra_elements", "{} top-level elements, expected {}", elems.len(), 1 + layers.len());
        }
    }
    Ok(())
}

pub fn check(c: &Case, obs: &mut Obs) -> Result<(), Fail> {
    let built: Built = match do_build(&c.build)? {
        Ok(b) => b,
        Err(e) => {
            obs.label(&format!("no_symbol:{:?}", e));
            return Ok(());
        }
    };
    let mut built = built;
    if let Some(what) = built.edit_after_build(c.build.hash() ^ 0x12) {
        obs.label(&format!("modules_edited_after_build:{}", what));
    }
    let n = built.size();
    let vals = built.values();
    let recycled = c.build.hash() % 8 == 3;
    if recycled {
        obs.label("recycled_copy_rendered");
    }
    let svg = catch(|| if recycled { c.cfg.svg_string(&crate::fq::recycled_copy(&built.qr)) } else { c.cfg.svg_string(&built.qr) })
    .map_err(|p| Fail { sig: panic_sig(&p), msg: format!("SvgBuilder panicked: {} ({})", p, c.cfg.to_json()) })?;
    check_svg(&svg, &vals, n, &c.cfg, obs)?;
    let cfg = &c.cfg;
    let img_special = cfg.image.as_deref().map(has_xml_special).unwrap_or(false);
    let alpha = cfg.layers.iter().any(|(_, c)| c.as_ref().map(|c| c.alpha_lt_255()).unwrap_or(false))
        || cfg.module_color.as_ref().map(|c| c.alpha_lt_255()).unwrap_or(false)
        || cfg.background.as_ref().map(|c| c.alpha_lt_255()).unwrap_or(false);
    obs.label(&format!("layers:{}", cfg.layers.len()));
    for (si, _) in &cfg.layers {
        obs.label(&format!("shape:{}", SHAPE_NAMES[*si]));
    }
    obs.label(&format!("margin:{}", match cfg.margin { None => "default".to_string(), Some(0) => "0".into(), Some(m) if m <= 4 => "1-4".into(), Some(_) => ">4".into() }));
    if cfg.warm.is_some() {
        obs.label("renderer_instance_reused");
    }
    if cfg.image.is_some() {
        obs.label(if img_special { "image:xml_special" } else { "image:plain" });
    }
    if alpha {
        obs.label("alpha<255");
    }
    obs.label(&format!("band:{}", crate::gens::version_band(refmodel::tables::version_from_size(n).unwrap_or(1))));
    if cfg.layers.len() >= 2 || alpha || img_special || cfg.margin == Some(0) {
        obs.nontrivial(crate::engine::hash_value(&to_json(c)));
    }
    obs.sample(&format!("layers{}|img:{}", cfg.layers.len().min(3), if cfg.image.is_some() { if img_special { "special" } else { "plain" } } else { "none" }), || {
        json!({"build": c.build.to_sample(), "svg": c.cfg.to_json(), "svg_bytes": svg.len()})
    });
    Ok(())
}

pub fn replay(_e: &Engine, case: &Value, obs: &mut Obs) -> Result<(), Fail> {
    let c = from_json(case).ok_or_else(|| Fail { sig: "bad_replay".into(), msg: "cannot parse case".into() })?;
    check(&c, obs)
}

pub fn cfg_strategy() -> BoxedStrategy<SvgCfg> {
    (
        prop_oneof![4 => Just(None), 2 => Just(Some(0usize)), 6 => (0usize..=16).prop_map(Some), 1 => (17usize..=300).prop_map(Some), 1 => crate::svgcase::boundary_margin(100_000).prop_map(Some)],
        // 0..4 layers mostly; sometimes a layer count around 2^k (fixed-size buffers, bit sets of layers)
        prop_oneof![12 => (0usize..=4).boxed(), 1 => proptest::sample::select(vec![7usize, 8, 9, 15, 16, 17, 31, 32, 33, 40]).boxed()]
            .prop_flat_map(|n| vec((0usize..6, prop_oneof![1 => Just(None), 1 => any_color().prop_map(Some)]), n)),
        prop_oneof![1 => Just(None), 2 => any_color().prop_map(Some)],
        prop_oneof![1 => Just(None), 2 => any_color().prop_map(Some)],
        prop_oneof![2 => Just(None), 3 => image_string().prop_map(Some)],
        prop_oneof![2 => Just(None), 1 => (0usize..3).prop_map(Some)],
        warm_strategy(),
        prop_oneof![1 => Just(0u8), 1 => any::<u8>()],
        prop_oneof![1 => Just((None, None, None)), 1 => crate::svgcase::image_geometry()],
        prop_oneof![5 => Just(0u8), 2 => 1u8..=4],
    )
        .prop_map(|(margin, layers, module_color, background, image, bgs, warm, order, (image_size, image_gap, image_position), pred)| SvgCfg {
            margin, layers, module_color, background, image, image_bg_shape: bgs, warm, order, image_size, image_gap, image_position, pred, ..SvgCfg::default()
        })
        .boxed()
}

pub fn small_build() -> BoxedStrategy<BuildCase> {
    (prop_oneof![4 => 0usize..72, 1 => 0usize..480], any::<bool>(), any::<bool>(), prop_oneof![Just(None), (0u8..8).prop_map(Some)])
        .prop_flat_map(|(ci, fm, fv, mask)| case_in_cell(Cell::from_index(ci), Force { mode: fm, level: true, version: fv }, mask).prop_map(|(c, _)| c))
        .boxed()
}

pub fn run(e: &'static Engine) {
    e.set_rule(
        "Enumerated: every version once with the default builder; every built-in shape alone; every ordered pair of shapes as two \
         layers (on V1-V3 symbols). Generated: QR (versions weighted small, any level/mask) x margin (unset, 0, 0..=16, 17..=300, and margins that put module coordinates on 10^k / 2^k boundaries up to 100 000) x a program \
         of 0..4 shape()/shape_color() calls over the 6 built-ins x colours as [u8;3], [u8;4] (alpha 0, 1..254, 255) or benign CSS \
         strings x module/background colours x image in {none, URL with &, data URI, relative/Windows path, printable ASCII and \
         non-ASCII text} x image size / gap / position overrides (absent, or size 0..1e9, gap from below minus half the size to 1e6, position anywhere incl. exactly 0.0 and negative) with forced insertion of & < > \" ' ]]> -- &amp; &#x. Oracle: roxmltree parses the document; root svg with \
         viewBox '0 0 S S', S = size + 2 x margin; first child rect S px x S px filled with the background colour (#rrggbb, \
         #rrggbbaa iff alpha < 255); then exactly one path per configured layer in call order with that layer's fill; an SVG path \
         interpreter splits d into sub-paths whose extents must map one-to-one onto {(col+margin, row+margin): module dark}, \
         nothing for light modules or the quiet zone, each inside its own cell; coarse shape-kind discriminators (Vertical narrower \
         than tall, Horizontal wider than tall, Diamond pointy, Circle round, squares boxy); with an image exactly one image element \
         whose parsed href equals the input string character for character and exactly one frame rect; without, none. \
         Non-trivial: >= 2 layers, or a colour with alpha < 255, or an image string containing an XML-special character, or margin 0.",
    );
    e.assume("roxmltree decides XML well-formedness and attribute unescaping");
    e.assume("image strings contain no control characters (XML 1.0 cannot carry them); colour strings passed as &str are benign CSS colour tokens");
    crate::engine::run_regress(e, &|c, o| replay(e, c, o));
    let mut jobs: Vec<Job> = Vec::new();
    // enumerated: each version with default builder
    jobs.push(Box::new(move |jc: &mut JobCtx| {
        for v in 1..=40usize {
            let cell = Cell { version: v, level: refmodel::tables::Level::M, mode: refmodel::tables::Mode::Byte };
            let strat = case_in_cell(cell, Force { mode: false, level: true, version: false }, None).prop_map(|(b, _)| Case { build: b, cfg: SvgCfg::default() });
            jc.run_prop(v as u64, &strat, 1, to_json, |c, o| {
                o.label("part:every_version_default");
                check(c, o)
            });
        }
    }));
    // every shape alone and every ordered pair
    jobs.push(Box::new(move |jc: &mut JobCtx| {
        let mut salt = 1000;
        for a in 0..6usize {
            for b in 0..=6usize {
                salt += 1;
                let layers = if b == 6 { vec![(a, None)] } else { vec![(a, None), (b, Some(ColorSpec::Rgba([200, 10, 10, 128])))] };
                let strat = (0usize..36, any::<bool>()).prop_flat_map(|(ci, fv)| case_in_cell(Cell::from_index(ci), Force { mode: false, level: true, version: fv }, None));
                let layers2 = layers.clone();
                let strat = strat.prop_map(move |(bc, _)| Case { build: bc, cfg: SvgCfg { layers: layers2.clone(), margin: Some((a + b) % 5), ..SvgCfg::default() } });
                jc.run_prop(salt, &strat, 1, to_json, |c, o| {
                    o.label("part:shape_pairs");
                    check(c, o)
                });
            }
        }
    }));
    // large symbols with very wide quiet zones: coordinates beyond 255 (and beyond 99 / 999 for digit-count effects)
    jobs.push(Box::new(move |jc: &mut JobCtx| {
        let mut salt = 2000;
        for v in [20usize, 27, 28, 33, 40] {
            for margin in [79usize, 80, 100, 128, 177, 255, 256, 300] {
                if jc.engine.tier == crate::engine::Tier::Quick && (v + margin) % 3 != 0 && !(v == 40 && margin == 80) {
                    continue;
                }
                salt += 1;
                let cell = Cell { version: v, level: refmodel::tables::Level::L, mode: refmodel::tables::Mode::Byte };
                let strat = case_in_cell(cell, Force { mode: false, level: true, version: true }, None).prop_map(move |(b, _)| Case {
                    build: b,
                    cfg: SvgCfg { margin: Some(margin), layers: vec![(margin % 6, None)], ..SvgCfg::default() },
                });
                jc.run_prop(salt, &strat, 1, to_json, |c, o| {
                    o.label("part:large_symbol_wide_margin");
                    check(c, o)
                });
            }
        }
    }));
    e.par(jobs);
    let total: u32 = e.tier.pick(16000, 192000);
    let shards = e.tier.pick(32u32, 96);
    let mut jobs: Vec<Job> = Vec::new();
    for _ in 0..shards {
        jobs.push(Box::new(move |jc: &mut JobCtx| {
            let strat = (small_build(), cfg_strategy()).prop_map(|(build, cfg)| Case { build, cfg });
            jc.run_prop(1 << 20, &strat, total / shards, to_json, |c, o| {
                o.label("part:generated");
                check(c, o)
            });
            // steered matrices (whole rows/columns dark, isolated modules, uniform rectangles, edges) under generated configurations
            let strat = (crate::gens::steered_case(1, 14, true), cfg_strategy()).prop_map(|((build, _), cfg)| Case { build, cfg });
            jc.run_prop(2 << 20, &strat, total / shards / 4, to_json, |c, o| {
                o.label("part:steered");
                check(c, o)
            });
        }));
    }
    e.par(jobs);
    e.set_exhaustive(false, "all 40 versions (default builder), all 6 shapes alone and all 36 ordered shape pairs are enumerated; everything else is sampled");
}
