//! C19 — file output is all-or-error (fault injection at create time and write time).

use super::common::do_build;
use crate::engine::{catch, fail, panic_sig, Engine, Fail, Job, JobCtx, Obs};
use crate::ensure;
use crate::fq::{BuildCase, Built};
use crate::gens::{case_in_cell, Cell, Force};
use crate::svgcase::*;
use fast_qr::convert::image::ImageBuilder;
use fast_qr::convert::svg::SvgBuilder;
use fast_qr::convert::ConvertError;
use proptest::prelude::*;
use serde_json::{json, Value};

#[derive(Clone, Copy, Debug, PartialEq, Eq)]
pub enum Writer {
    Svg,
    Png,
}

#[derive(Clone, Debug, PartialEq)]
pub enum Fault {
    None,
    ExistingLonger,
    MissingDir,
    /// `<missing directory>/../file`: the operating system resolves every component, so this path does not exist either
    MissingDirDotDot,
    /// `<symlink to real/deep>/../file` names real/file (the link is followed before `..` is applied), not ./file
    SymlinkDirDotDot,
    IsDir,
    ParentIsFile,
    NameTooLong,
    EmbeddedNul,
    EmptyPath,
    ReadOnlyProc,
    ReadOnlySys,
    DevFull,
    /// directory without write permission / existing file without write permission, written by an UNPRIVILEGED child
    /// process (the harness runs as root, for which permissions do not apply: the child drops to uid/gid 65534 first)
    ReadOnlyDir,
    ReadOnlyFile,
    /// the path is a symbolic link whose target's directory does not exist / a symbolic link to itself
    DanglingSymlink,
    SymlinkLoop,
    /// the path is a symbolic link to an existing, longer regular file (must end up holding exactly the rendering)
    SymlinkToLonger,
    /// the path already holds a file of exactly the same length that differs from the new output only in its last
    /// bytes / only in its first bytes (an "already up to date?" shortcut must compare everything)
    ExistingSameLengthTail,
    ExistingSameLengthHead,
    /// the path already holds exactly the new output followed by extra bytes
    ExistingPrefixEqual,
    /// RLIMIT_FSIZE = permille/1000 of the full output length (in a child process)
    ShortWrite(u32),
    /// the destination is a FIFO of minimal capacity whose reader takes 16 bytes and goes away: a document longer than
    /// the pipe can hold cannot have been written in full, whatever the error is called (EPIPE)
    PipeClosedEarly,
    /// the destination is a FIFO whose reader takes everything: no fault, the reader must receive exactly the rendering
    PipeDrained,
}

impl Fault {
    fn name(&self) -> String {
        match self {
            Fault::ShortWrite(_) => "ShortWrite".into(),
            f => format!("{:?}", f),
        }
    }
}

#[derive(Clone, Debug)]
pub struct Case {
    pub build: BuildCase,
    pub cfg: SvgCfg,
    pub writer: Writer,
    pub fault: Fault,
    /// how the destination of a writable target is named: 0 absolute path in the scratch directory; 1 relative to the
    /// current directory; 2 relative, in the sub-directory `out/`; 3 absolute, in that sub-directory. (The process
    /// works inside its scratch directory, which holds `logo.png`; `out/` holds a DIFFERENT `logo.png`.)
    pub dest: u8,
    /// extension of the destination's file name: 0 the writer's own (svg / png); 1 the OTHER writer's; 2 the other
    /// writer's in upper case; 3 jpg; 4 double (svg.png / png.svg); 5 empty (name ends with a dot); 6 tar.gz; 7 the
    /// writer's own in upper case. The writer decides the content, never the name.
    pub name: u8,
}

pub fn to_json(c: &Case) -> Value {
    let fault = match &c.fault {
        Fault::ShortWrite(p) => json!({"short_write_permille": p}),
        f => json!(format!("{:?}", f)),
    };
    json!({"build": c.build.to_json(), "svg": c.cfg.to_json(), "writer": if c.writer == Writer::Svg { "svg" } else { "png" }, "fault": fault, "dest": c.dest, "name": c.name})
}

pub fn from_json(v: &Value) -> Option<Case> {
    let f = v.get("fault")?;
    let fault = if let Some(p) = f.get("short_write_permille").and_then(|x| x.as_u64()) {
        Fault::ShortWrite(p as u32)
    } else {
        match f.as_str()? {
            "None" => Fault::None,
            "ExistingLonger" => Fault::ExistingLonger,
            "MissingDir" => Fault::MissingDir,
            "MissingDirDotDot" => Fault::MissingDirDotDot,
            "SymlinkDirDotDot" => Fault::SymlinkDirDotDot,
            "IsDir" => Fault::IsDir,
            "ParentIsFile" => Fault::ParentIsFile,
            "NameTooLong" => Fault::NameTooLong,
            "EmbeddedNul" => Fault::EmbeddedNul,
            "EmptyPath" => Fault::EmptyPath,
            "ReadOnlyProc" => Fault::ReadOnlyProc,
            "ReadOnlySys" => Fault::ReadOnlySys,
            "DevFull" => Fault::DevFull,
            "ReadOnlyDir" => Fault::ReadOnlyDir,
            "ReadOnlyFile" => Fault::ReadOnlyFile,
            "DanglingSymlink" => Fault::DanglingSymlink,
            "SymlinkLoop" => Fault::SymlinkLoop,
            "SymlinkToLonger" => Fault::SymlinkToLonger,
            "ExistingSameLengthTail" => Fault::ExistingSameLengthTail,
            "ExistingSameLengthHead" => Fault::ExistingSameLengthHead,
            "ExistingPrefixEqual" => Fault::ExistingPrefixEqual,
            "PipeClosedEarly" => Fault::PipeClosedEarly,
            "PipeDrained" => Fault::PipeDrained,
            _ => return None,
        }
    };
    Some(Case {
        build: BuildCase::from_json(v.get("build")?)?,
        cfg: SvgCfg::from_json(v.get("svg")?)?,
        writer: if v.get("writer")?.as_str()? == "svg" { Writer::Svg } else { Writer::Png },
        fault,
        dest: v.get("dest").and_then(|x| x.as_u64()).unwrap_or(0) as u8,
        name: v.get("name").and_then(|x| x.as_u64()).unwrap_or(0) as u8,
    })
}

/// Outcome of to_file as observed: Ok / Err(text, converts to ConvertError variant) / panic
#[derive(Debug)]
enum Outcome {
    Ok,
    Err(String, &'static str),
    Panic(String),
}

fn expected_bytes(c: &Case, built: &Built) -> Result<Vec<u8>, Fail> {
    catch(|| match c.writer {
        Writer::Svg => {
            let mut b = SvgBuilder::default();
            c.cfg.apply(&mut b);
            Ok(b.to_str(&built.qr).into_bytes())
        }
        Writer::Png => {
            let mut b = ImageBuilder::default();
            c.cfg.apply(&mut b);
            b.to_bytes(&built.qr).map_err(|e| e.to_string())
        }
    })
    .map_err(|p| Fail { sig: panic_sig(&p), msg: format!("in-memory rendering panicked: {}", p) })?
    .map_err(|e| Fail { sig: "render_err".into(), msg: format!("in-memory rendering failed: {}", e) })
}

fn variant_name(e: &ConvertError) -> &'static str {
    match e {
        ConvertError::Svg(_) => "Svg",
        ConvertError::Image(_) => "Image",
        ConvertError::Io(_) => "Io",
    }
}

fn write_file(c: &Case, built: &Built, path: &str) -> Outcome {
    let r = catch(|| match c.writer {
        Writer::Svg => {
            // the writing renderer instance may have rendered before (warm-up: other option values, the last shape layer
            // added afterwards); the file must hold what a fresh renderer with the final options produces in memory
            let mut b = SvgBuilder::default();
            c.cfg.apply_for_warm(&mut b);
            c.cfg.warm_up_svg_builder(&mut b, &built.qr);
            b.to_file(&built.qr, path).map_err(|e| {
                let text = format!("{:?}", e);
                let ce: ConvertError = e.into();
                (text, variant_name(&ce))
            })
        }
        Writer::Png => {
            let mut b = ImageBuilder::default();
            c.cfg.apply_for_warm(&mut b);
            c.cfg.warm_up_image_builder(&mut b, &built.qr);
            b.to_file(&built.qr, path).map_err(|e| {
                let text = format!("{}", e);
                let ce: ConvertError = e.into();
                (text, variant_name(&ce))
            })
        }
    });
    match r {
        Ok(Ok(())) => Outcome::Ok,
        Ok(Err((t, v))) => Outcome::Err(t, v),
        Err(p) => Outcome::Panic(p),
    }
}

pub fn scratch_dir() -> String {
    let d = format!("/tmp/fqv-c19-{}", std::process::id());
    let _ = std::fs::create_dir_all(&d);
    d
}

/// Image references the raster writer really loads: files relative to the current directory, a data URI, a missing file.
pub const PNG_IMAGES: [&str; 5] = ["logo.png", "./logo.png", "imgs/mark.png", "missing.png", "@data"];

/// Once per process: the scratch directory gets `logo.png` (red), `imgs/mark.png` (green) and `out/logo.png`,
/// `out/imgs/mark.png` (blue - what a reference resolved against the DESTINATION's directory would find), and
/// becomes the current directory, so that relative image references and relative destinations mean something.
fn enter_scratch() {
    static ONCE: std::sync::Once = std::sync::Once::new();
    ONCE.call_once(|| {
        let d = scratch_dir();
        let _ = std::fs::create_dir_all(format!("{}/imgs", d));
        let _ = std::fs::create_dir_all(format!("{}/out/imgs", d));
        std::fs::write(format!("{}/logo.png", d), super::c18::solid_png([220, 0, 0])).expect("scratch write");
        std::fs::write(format!("{}/imgs/mark.png", d), super::c18::solid_png([0, 200, 0])).expect("scratch write");
        std::fs::write(format!("{}/out/logo.png", d), super::c18::solid_png([0, 0, 220])).expect("scratch write");
        std::fs::write(format!("{}/out/imgs/mark.png", d), super::c18::solid_png([0, 0, 220])).expect("scratch write");
        std::env::set_current_dir(&d).expect("chdir to scratch");
    });
}

fn is_char_device(path: &str) -> bool {
    use std::os::unix::fs::FileTypeExt;
    std::fs::metadata(path).map(|m| m.file_type().is_char_device()).unwrap_or(false)
}

/// Child-process entry: `fqv __c19child <case.json> <path> <limit>`; prints one JSON line.
pub fn child_main(args: &[String]) -> ! {
    let text = std::fs::read_to_string(&args[0]).expect("read case");
    let v: Value = serde_json::from_str(&text).expect("parse case");
    let c = from_json(&v).expect("case");
    let path = &args[1];
    let limit: u64 = args[2].parse().expect("limit");
    let drop_uid: Option<u32> = args.get(3).and_then(|s| s.parse().ok());
    let built = match crate::fq::build(&c.build) {
        Ok(Ok(b)) => b,
        _ => {
            println!("{}", json!({"setup": "build_failed"}));
            std::process::exit(0);
        }
    };
    unsafe {
        if limit != u64::MAX {
            libc::signal(libc::SIGXFSZ, libc::SIG_IGN);
            let lim = libc::rlimit { rlim_cur: limit as libc::rlim_t, rlim_max: limit as libc::rlim_t };
            if libc::setrlimit(libc::RLIMIT_FSIZE, &lim) != 0 {
                println!("{}", json!({"setup": "setrlimit_failed"}));
                std::process::exit(0);
            }
        }
        if let Some(uid) = drop_uid {
            if libc::setgroups(0, std::ptr::null()) != 0 || libc::setgid(uid) != 0 || libc::setuid(uid) != 0 || libc::getuid() != uid {
                println!("{}", json!({"setup": "setuid_failed"}));
                std::process::exit(0);
            }
            // the fault must really be there for this uid: a plain create must fail
            if std::fs::OpenOptions::new().write(true).create(true).open(path).is_ok() {
                println!("{}", json!({"setup": "fault_not_provided"}));
                std::process::exit(0);
            }
        }
    }
    println!("{}", json!({"setup": "ready"}));
    let out = write_file(&c, &built, path);
    let j = match out {
        Outcome::Ok => json!({"result": "ok"}),
        Outcome::Err(t, v) => json!({"result": "err", "text": t, "variant": v}),
        Outcome::Panic(p) => json!({"result": "panic", "text": p}),
    };
    println!("{}", j);
    std::process::exit(0);
}

pub fn check(c: &Case, obs: &mut Obs) -> Result<(), Fail> {
    // Some fault classes run the writer in a child process that receives the case as JSON: work on the case as it comes
    // back from JSON from the start, so that parent and child hold identical option values whatever the text form of a
    // real number does (serde_json is built with float_roundtrip as well).
    let round_tripped = from_json(&to_json(c));
    let c = round_tripped.as_ref().unwrap_or(c);
    let built = match do_build(&c.build)? {
        Ok(b) => b,
        Err(_) => {
            obs.label("no_symbol");
            return Ok(());
        }
    };
    enter_scratch();
    let loads_image = c.writer == Writer::Png && c.cfg.image.is_some();
    let want = match expected_bytes(c, &built) {
        Ok(w) => w,
        // with an image to load the rasteriser may refuse odd frame geometry: not this property's concern
        Err(_) if loads_image => {
            obs.label("in_memory_rendering_unavailable");
            return Ok(());
        }
        Err(f) => return Err(f),
    };
    if loads_image {
        obs.label(&format!("png_image:{}", if c.cfg.image.as_deref().map(|i| i.starts_with("data:")).unwrap_or(false) { "data_uri" } else { c.cfg.image.as_deref().unwrap_or("") }));
    }
    obs.label(&format!("dest:{}", ["absolute", "relative_cwd", "relative_subdir", "absolute_subdir"][c.dest as usize % 4]));
    let dir = scratch_dir();
    let uniq = format!("{:016x}", crate::engine::hash_value(&to_json(c)));
    let svg = c.writer == Writer::Svg;
    let ext = match c.name % 8 {
        0 => if svg { "svg" } else { "png" },
        1 => if svg { "png" } else { "svg" },
        2 => if svg { "PNG" } else { "SVG" },
        3 => "jpg",
        4 => if svg { "png.svg" } else { "svg.png" },
        5 => "",
        6 => "tar.gz",
        _ => if svg { "SVG" } else { "PNG" },
    };
    obs.label(&format!("name_extension:{}", ["own", "other_writer", "other_writer_upper", "jpg", "double", "empty", "tar.gz", "own_upper"][c.name as usize % 8]));
    let good = match c.dest % 4 {
        0 => format!("{}/{}.{}", dir, uniq, ext),
        1 => format!("{}.{}", uniq, ext),
        2 => format!("out/{}.{}", uniq, ext),
        _ => format!("{}/out/{}.{}", dir, uniq, ext),
    };
    let _ = std::fs::remove_file(&good);
    let cls = c.fault.name();
    let wname = if c.writer == Writer::Svg { "svg" } else { "png" };
    if matches!(c.fault, Fault::PipeClosedEarly | Fault::PipeDrained) {
        return pipe_case(c, &built, &want, &format!("{}/fifo-{}.{}", dir, uniq, ext), obs);
    }
    // (path, must_fail)
    let (path, must_fail): (String, bool) = match &c.fault {
        Fault::None => (good.clone(), false),
        Fault::ExistingLonger => {
            let mut junk = want.clone();
            junk.extend_from_slice(&vec![b'#'; 4096]);
            std::fs::write(&good, &junk).expect("scratch write");
            (good.clone(), false)
        }
        Fault::MissingDir => (format!("{}/no-such-dir-{}/out.{}", dir, uniq, ext), true),
        Fault::MissingDirDotDot => (format!("{}/no-such-dir-{}/../dotdot-{}.{}", dir, uniq, uniq, ext), true),
        Fault::SymlinkDirDotDot => {
            let real = format!("{}/real-{}", dir, uniq);
            let _ = std::fs::create_dir_all(format!("{}/deep", real));
            let l = format!("{}/lnk-{}", dir, uniq);
            let _ = std::fs::remove_file(&l);
            let _ = std::os::unix::fs::symlink(format!("{}/deep", real), &l);
            let _ = std::fs::remove_file(format!("{}/via-link-{}.{}", real, uniq, ext));
            (format!("{}/../via-link-{}.{}", l, uniq, ext), false)
        }
        Fault::IsDir => {
            let d = format!("{}/dir-{}", dir, uniq);
            let _ = std::fs::create_dir_all(&d);
            (d, true)
        }
        Fault::ParentIsFile => {
            let f = format!("{}/file-{}", dir, uniq);
            std::fs::write(&f, b"x").expect("scratch write");
            (format!("{}/out.{}", f, ext), true)
        }
        Fault::NameTooLong => (format!("{}/{}.{}", dir, "n".repeat(300), ext), true),
        Fault::EmbeddedNul => (format!("{}/a\0b-{}.{}", dir, uniq, ext), true),
        Fault::EmptyPath => (String::new(), true),
        Fault::ReadOnlyProc => (format!("/proc/fqv-{}.{}", uniq, ext), true),
        Fault::ReadOnlySys => (format!("/sys/fqv-{}.{}", uniq, ext), true),
        Fault::DevFull => ("/dev/full".to_string(), true),
        Fault::ReadOnlyDir => {
            use std::os::unix::fs::PermissionsExt;
            let d = format!("{}/ro-dir-{}", dir, uniq);
            let _ = std::fs::create_dir_all(&d);
            let _ = std::fs::set_permissions(&d, std::fs::Permissions::from_mode(0o555));
            (format!("{}/out.{}", d, ext), true)
        }
        Fault::ReadOnlyFile => {
            use std::os::unix::fs::PermissionsExt;
            std::fs::write(&good, b"read-only content").expect("scratch write");
            let _ = std::fs::set_permissions(&good, std::fs::Permissions::from_mode(0o444));
            (good.clone(), true)
        }
        Fault::DanglingSymlink => {
            let l = format!("{}/dangling-{}.{}", dir, uniq, ext);
            let _ = std::fs::remove_file(&l);
            let _ = std::os::unix::fs::symlink(format!("{}/gone-{}/target.{}", dir, uniq, ext), &l);
            (l, true)
        }
        Fault::ExistingSameLengthTail | Fault::ExistingSameLengthHead | Fault::ExistingPrefixEqual => {
            let mut old = want.clone();
            match c.fault {
                Fault::ExistingSameLengthTail => {
                    let k = old.len().min(1 + (c.build.hash() % 900) as usize);
                    let n0 = old.len();
                    for b in old[n0 - k..].iter_mut() {
                        *b = b.wrapping_add(1);
                    }
                }
                Fault::ExistingSameLengthHead => {
                    let k = old.len().min(1 + (c.build.hash() % 64) as usize);
                    for b in old[..k].iter_mut() {
                        *b = b.wrapping_add(1);
                    }
                }
                _ => old.extend_from_slice(b"\n"),
            }
            std::fs::write(&good, &old).expect("scratch write");
            (good.clone(), false)
        }
        Fault::SymlinkToLonger => {
            let mut junk = want.clone();
            junk.extend_from_slice(&vec![b'#'; 9000]);
            std::fs::write(&good, &junk).expect("scratch write");
            let l = format!("{}/link-{}.{}", dir, uniq, ext);
            let _ = std::fs::remove_file(&l);
            let _ = std::os::unix::fs::symlink(&good, &l);
            (l, false)
        }
        Fault::SymlinkLoop => {
            let l = format!("{}/loop-{}.{}", dir, uniq, ext);
            let _ = std::fs::remove_file(&l);
            let _ = std::os::unix::fs::symlink(&l, &l);
            (l, true)
        }
        Fault::ShortWrite(_) => (good.clone(), true),
        Fault::PipeClosedEarly | Fault::PipeDrained => unreachable!("handled by pipe_case"),
    };
    // validate that the environment really provides the fault (else the class is skipped, never asserted)
    let provided = match &c.fault {
        Fault::ReadOnlyProc | Fault::ReadOnlySys => match std::fs::File::create(&path) {
            Ok(_) => {
                let _ = std::fs::remove_file(&path);
                false
            }
            Err(_) => true,
        },
        Fault::DanglingSymlink | Fault::SymlinkLoop => std::fs::symlink_metadata(&path).is_ok() && std::fs::OpenOptions::new().write(true).create(true).open(&path).is_err(),
        Fault::DevFull => is_char_device("/dev/full") && {
            use std::io::Write;
            std::fs::OpenOptions::new().write(true).open("/dev/full").and_then(|mut f| f.write_all(b"probe")).is_err()
        },
        _ => true,
    };
    if !provided {
        obs.label(&format!("fault_not_available:{}", cls));
        return Ok(());
    }
    let in_child: Option<(u64, Option<u32>)> = match c.fault {
        Fault::ShortWrite(permille) => Some(((want.len() as u64 * permille as u64 / 1000).min(want.len() as u64 - 1), None)),
        Fault::ReadOnlyDir | Fault::ReadOnlyFile => Some((u64::MAX, Some(65534))),
        _ => None,
    };
    let outcome = if let Some((limit, uid)) = in_child {
        let permille = if let Fault::ShortWrite(p) = c.fault { p } else { 0 };
        let case_path = format!("{}/{}.case.json", dir, uniq);
        std::fs::write(&case_path, to_json(c).to_string()).expect("scratch write");
        let exe = std::env::current_exe().expect("current_exe");
        let mut cmd = std::process::Command::new(exe);
        cmd.arg("__c19child").arg(&case_path).arg(&path).arg(limit.to_string());
        if let Some(u) = uid {
            cmd.arg(u.to_string());
        }
        let out = cmd.output().expect("spawn child");
        let _ = std::fs::remove_file(&case_path);
        let text = String::from_utf8_lossy(&out.stdout).to_string();
        let lines: Vec<Value> = text.lines().filter_map(|l| serde_json::from_str(l).ok()).collect();
        let ready = lines.iter().any(|l| l.get("setup").and_then(|s| s.as_str()) == Some("ready"));
        if uid.is_some() && !ready {
            // no unprivileged user available here (or the fault does not hold for it): class skipped, never asserted
            obs.label(&format!("fault_not_available:{}", cls));
            let _ = std::fs::remove_file(&good);
            let _ = std::fs::remove_dir_all(format!("{}/ro-dir-{}", dir, uniq));
            return Ok(());
        }
        if !ready {
            panic!("C19 child could not set up the fault: {:?} / {:?}", text, String::from_utf8_lossy(&out.stderr));
        }
        obs.count("child_processes", 1);
        if uid.is_none() {
            obs.label(&format!("short_write_at:{}", match permille { 0 => "0", 1..=499 => "first_half", _ => "second_half" }));
        }
        match lines.iter().find(|l| l.get("result").is_some()) {
            Some(l) => match l["result"].as_str().unwrap_or("") {
                "ok" => Outcome::Ok,
                "err" => Outcome::Err(
                    l["text"].as_str().unwrap_or("").to_string(),
                    match l["variant"].as_str().unwrap_or("") {
                        "Io" => "Io",
                        "Svg" => "Svg",
                        _ => "Image",
                    },
                ),
                _ => Outcome::Panic(l["text"].as_str().unwrap_or("").to_string()),
            },
            None => {
                return fail(
                    "child_died",
                    format!("writer {} died (status {:?}) while writing with the file size limited to {} of {} bytes ({})", wname, out.status, limit, want.len(), to_json(c)),
                )
            }
        }
    } else {
        write_file(c, &built, &path)
    };
    let cleanup = || {
        let _ = std::fs::remove_file(&good);
        if let Fault::IsDir = c.fault {
            let _ = std::fs::remove_dir(&path);
        }
        if let Fault::ParentIsFile = c.fault {
            let _ = std::fs::remove_file(format!("{}/file-{}", dir, uniq));
        }
        if matches!(c.fault, Fault::DanglingSymlink | Fault::SymlinkLoop | Fault::SymlinkToLonger) {
            let _ = std::fs::remove_file(&path);
        }
        if let Fault::ReadOnlyDir = c.fault {
            let _ = std::fs::remove_dir_all(format!("{}/ro-dir-{}", dir, uniq));
        }
    };
    let res = (|| -> Result<(), Fail> {
        match (&outcome, must_fail) {
            (Outcome::Panic(p), _) => fail(&format!("panic:{}:{}", wname, cls), format!("{} to_file panicked under fault {}: {} ({})", wname, cls, p, to_json(c))),
            (Outcome::Ok, false) => {
                let got = std::fs::read(&path).map_err(|e| Fail { sig: format!("ok_but_unreadable:{}", wname), msg: format!("to_file returned Ok but the file cannot be read: {}", e) })?;
                ensure!(
                    got == want,
                    &format!("ok_but_differs:{}:{}", wname, cls),
                    "{} to_file returned Ok but the file has {} bytes and the in-memory rendering {} (first difference at {:?}; fault {})",
                    wname,
                    got.len(),
                    want.len(),
                    got.iter().zip(want.iter()).position(|(a, b)| a != b),
                    cls
                );
                Ok(())
            }
            (Outcome::Err(t, _), false) => fail(&format!("spurious_error:{}", wname), format!("{} to_file failed without an injected fault: {} ({})", wname, t, to_json(c))),
            (Outcome::Ok, true) => {
                let len = std::fs::metadata(&path).map(|m| m.len() as i64).unwrap_or(-1);
                fail(
                    &format!("ok_despite_fault:{}:{}", wname, cls),
                    format!("{} to_file returned Ok although fault {} was injected (file now has {} bytes, full output is {} bytes) ({})", wname, cls, len, want.len(), to_json(c)),
                )
            }
            (Outcome::Err(_, variant), true) => {
                ensure!(*variant == "Io", &format!("error_variant:{}", wname), "I/O failure converts to ConvertError::{} instead of ConvertError::Io", variant);
                Ok(())
            }
        }
    })();
    cleanup();
    res?;
    obs.label(&format!("fault:{}", cls));
    obs.label(&format!("writer:{}", wname));
    if must_fail {
        let bucket = match c.fault {
            Fault::ShortWrite(p) => p / 50,
            _ => 0,
        };
        obs.nontrivial(crate::engine::hash_bytes(format!("{}|{}|{}|{:x}", wname, cls, bucket, c.build.hash()).as_bytes()));
    }
    obs.sample(&format!("{}|{}", wname, cls), || json!({"case": to_json(c), "full_output_bytes": want.len(), "outcome": format!("{:?}", outcome).chars().take(160).collect::<String>()}));
    Ok(())
}

/// The destination is a FIFO. Its read end is opened first (non-blocking, so that the writer's open never waits) and
/// shrunk to the smallest capacity the kernel grants; a reader thread then either takes 16 bytes and closes, or drains
/// the pipe until the writer has returned. The process ignores SIGPIPE (Rust's runtime does), so a write to a pipe
/// without reader fails with EPIPE. Asserted only where the kernel's behaviour leaves no choice: after an early close
/// a document longer than capacity + 16 + one page cannot have been accepted in full, so Ok is a success report after
/// an incomplete write; with a draining reader nothing fails, so the call must return Ok and the reader must hold
/// exactly the in-memory rendering.
fn pipe_case(c: &Case, built: &Built, want: &[u8], path: &str, obs: &mut Obs) -> Result<(), Fail> {
    use std::io::Read;
    use std::os::unix::fs::OpenOptionsExt;
    use std::os::unix::io::AsRawFd;
    use std::sync::atomic::{AtomicBool, Ordering};
    let cls = c.fault.name();
    let wname = if c.writer == Writer::Svg { "svg" } else { "png" };
    let early = c.fault == Fault::PipeClosedEarly;
    let _ = std::fs::remove_file(path);
    let cpath = std::ffi::CString::new(path.as_bytes()).expect("fifo path");
    if unsafe { libc::mkfifo(cpath.as_ptr(), 0o600) } != 0 {
        obs.label(&format!("fault_not_available:{}", cls));
        return Ok(());
    }
    let mut rd = match std::fs::OpenOptions::new().read(true).custom_flags(libc::O_NONBLOCK).open(path) {
        Ok(f) => f,
        Err(_) => {
            let _ = std::fs::remove_file(path);
            obs.label(&format!("fault_not_available:{}", cls));
            return Ok(());
        }
    };
    let cap = unsafe {
        libc::fcntl(rd.as_raw_fd(), libc::F_SETPIPE_SZ, 4096);
        libc::fcntl(rd.as_raw_fd(), libc::F_GETPIPE_SZ)
    };
    if cap <= 0 {
        let _ = std::fs::remove_file(path);
        obs.label(&format!("fault_not_available:{}", cls));
        return Ok(());
    }
    let done = std::sync::Arc::new(AtomicBool::new(false));
    let done2 = done.clone();
    let reader = std::thread::spawn(move || {
        let mut got: Vec<u8> = Vec::new();
        let mut buf = [0u8; 65536];
        let started = std::time::Instant::now();
        loop {
            let finished = done2.load(Ordering::SeqCst);
            let lim = if early { 16 - got.len() } else { buf.len() };
            match rd.read(&mut buf[..lim]) {
                Ok(n) if n > 0 => {
                    got.extend_from_slice(&buf[..n]);
                    if early && got.len() >= 16 {
                        break;
                    }
                }
                // nothing there (yet): no writer has opened the pipe, or it is empty
                _ => {
                    if finished || started.elapsed().as_secs() > 120 {
                        break;
                    }
                    std::thread::sleep(std::time::Duration::from_micros(200));
                }
            }
        }
        drop(rd);
        got
    });
    let outcome = write_file(c, built, path);
    done.store(true, Ordering::SeqCst);
    let got = reader.join().expect("pipe reader");
    let _ = std::fs::remove_file(path);
    if let Outcome::Panic(p) = &outcome {
        return fail(&format!("panic:{}:{}", wname, cls), format!("{} to_file panicked under fault {}: {} ({})", wname, cls, p, to_json(c)));
    }
    if early {
        let decided = want.len() > cap as usize + 16 + 4096;
        obs.label(if decided { "pipe_closed_early:longer_than_the_pipe" } else { "pipe_closed_early:fits_the_pipe_unasserted" });
        if decided {
            match &outcome {
                Outcome::Ok => {
                    return fail(
                        &format!("ok_despite_fault:{}:{}", wname, cls),
                        format!("{} to_file returned Ok although the reader of the destination pipe (capacity {} bytes) went away after {} of {} bytes ({})", wname, cap, got.len(), want.len(), to_json(c)),
                    )
                }
                Outcome::Err(_, variant) => ensure!(*variant == "Io", &format!("error_variant:{}", wname), "I/O failure converts to ConvertError::{} instead of ConvertError::Io", variant),
                Outcome::Panic(_) => unreachable!(),
            }
            obs.nontrivial(crate::engine::hash_bytes(format!("{}|{}|{:x}", wname, cls, c.build.hash()).as_bytes()));
        }
    } else {
        match &outcome {
            Outcome::Ok => ensure!(
                got == want,
                &format!("ok_but_differs:{}:{}", wname, cls),
                "{} to_file returned Ok but the reader of the destination pipe received {} bytes and the in-memory rendering has {} (first difference at {:?})",
                wname,
                got.len(),
                want.len(),
                got.iter().zip(want.iter()).position(|(a, b)| a != b)
            ),
            Outcome::Err(t, _) => return fail(&format!("spurious_error:{}", wname), format!("{} to_file failed although the destination pipe was drained: {} ({})", wname, t, to_json(c))),
            Outcome::Panic(_) => unreachable!(),
        }
    }
    obs.label(&format!("fault:{}", cls));
    obs.label(&format!("writer:{}", wname));
    obs.sample(&format!("{}|{}", wname, cls), || json!({"case": to_json(c), "full_output_bytes": want.len(), "pipe_capacity": cap, "reader_received": got.len(), "outcome": format!("{:?}", outcome).chars().take(160).collect::<String>()}));
    Ok(())
}

/// Two exports at the same time: one thread writes `<stem>.svg`, another `<stem>.png` (the same stem in the same
/// directory - the two renderings of one code - or different stems), `rounds` times, released together by a barrier.
/// Each destination is a different file, nothing is injected, so every call must return Ok and leave exactly its own
/// in-memory rendering in its own file, whatever the other thread is doing (a shared temporary name, a shared
/// buffer or a "last export" record would show here and nowhere in single-threaded use).
pub fn check_concurrent(bc: &BuildCase, same_stem: bool, rounds: usize, obs: &mut Obs) -> Result<(), Fail> {
    let built = match do_build(bc)? {
        Ok(b) => b,
        Err(_) => {
            obs.label("no_symbol");
            return Ok(());
        }
    };
    let want_svg: Vec<u8> = catch(|| SvgBuilder::default().to_str(&built.qr).into_bytes()).map_err(|p| Fail { sig: panic_sig(&p), msg: format!("in-memory rendering panicked: {}", p) })?;
    let want_png: Vec<u8> = match catch(|| ImageBuilder::default().to_bytes(&built.qr)) {
        Ok(Ok(b)) => b,
        Ok(Err(e)) => return fail("render_err", format!("in-memory rendering failed: {}", e)),
        Err(p) => return fail(&panic_sig(&p), format!("in-memory rendering panicked: {}", p)),
    };
    static SEQ: std::sync::atomic::AtomicU64 = std::sync::atomic::AtomicU64::new(0);
    let dir = format!("{}/conc-{}", scratch_dir(), SEQ.fetch_add(1, std::sync::atomic::Ordering::SeqCst));
    let _ = std::fs::create_dir_all(&dir);
    let pa = format!("{}/badge.svg", dir);
    let pb = if same_stem { format!("{}/badge.png", dir) } else { format!("{}/other.png", dir) };
    let barrier = std::sync::Barrier::new(2);
    let qr = &built.qr;
    // per round and writer: (what to_file returned, the file as read back right afterwards)
    type Round = (Result<Result<(), String>, String>, Option<Vec<u8>>);
    let (ra, rb): (Vec<Round>, Vec<Round>) = std::thread::scope(|s| {
        let a = s.spawn(|| {
            (0..rounds)
                .map(|_| {
                    let _ = std::fs::remove_file(&pa);
                    barrier.wait();
                    let r = catch(|| SvgBuilder::default().to_file(qr, &pa).map_err(|e| format!("{:?}", e)));
                    let got = std::fs::read(&pa).ok();
                    barrier.wait();
                    (r, got)
                })
                .collect::<Vec<Round>>()
        });
        let b = s.spawn(|| {
            (0..rounds)
                .map(|_| {
                    let _ = std::fs::remove_file(&pb);
                    barrier.wait();
                    let r = catch(|| ImageBuilder::default().to_file(qr, &pb).map_err(|e| format!("{}", e)));
                    let got = std::fs::read(&pb).ok();
                    barrier.wait();
                    (r, got)
                })
                .collect::<Vec<Round>>()
        });
        (a.join().expect("svg export thread"), b.join().expect("png export thread"))
    });
    let _ = std::fs::remove_dir_all(&dir);
    let case = || json!({"concurrent": {"build": bc.to_json(), "same_stem": same_stem, "rounds": rounds}});
    for (wname, path, want, rs) in [("svg", &pa, &want_svg, &ra), ("png", &pb, &want_png, &rb)] {
        for (i, (r, got)) in rs.iter().enumerate() {
            match r {
                Err(p) => return fail(&format!("panic:{}:concurrent", wname), format!("{} to_file panicked in round {} of two concurrent exports: {} ({})", wname, i, p, case())),
                Ok(Err(e)) => return fail(&format!("spurious_error:{}:concurrent", wname), format!("{} to_file({}) failed in round {} although nothing but another export (to a different file) was going on: {} ({})", wname, path, i, e, case())),
                Ok(Ok(())) => {
                    let got = got.as_ref().ok_or_else(|| Fail { sig: format!("ok_but_unreadable:{}:concurrent", wname), msg: format!("{} to_file({}) returned Ok in round {} but there is no such file ({})", wname, path, i, case()) })?;
                    ensure!(
                        got == want,
                        &format!("ok_but_differs:{}:concurrent", wname),
                        "{} to_file({}) returned Ok in round {} of two concurrent exports but the file has {} bytes (starting {:02x?}) and the in-memory rendering {} ({})",
                        wname,
                        path,
                        i,
                        got.len(),
                        &got[..got.len().min(8)],
                        want.len(),
                        case()
                    );
                }
            }
        }
    }
    obs.count("concurrent_export_rounds", rounds as u64);
    obs.label(if same_stem { "concurrent_exports:same_stem" } else { "concurrent_exports:different_stems" });
    obs.nontrivial(crate::engine::hash_bytes(format!("conc|{}|{:x}", same_stem, bc.hash()).as_bytes()));
    obs.sample(if same_stem { "concurrent|same_stem" } else { "concurrent|different_stems" }, || json!({"case": case(), "svg_bytes": want_svg.len(), "png_bytes": want_png.len()}));
    Ok(())
}

pub fn replay(_e: &Engine, case: &Value, obs: &mut Obs) -> Result<(), Fail> {
    if let Some(cc) = case.get("concurrent") {
        let bc = cc.get("build").and_then(BuildCase::from_json).ok_or_else(|| Fail { sig: "bad_replay".into(), msg: "cannot parse case".into() })?;
        return check_concurrent(&bc, cc.get("same_stem").and_then(|x| x.as_bool()).unwrap_or(true), cc.get("rounds").and_then(|x| x.as_u64()).unwrap_or(30) as usize, obs);
    }
    let c = from_json(case).ok_or_else(|| Fail { sig: "bad_replay".into(), msg: "cannot parse case".into() })?;
    check(&c, obs)
}

fn fault_strategy() -> BoxedStrategy<Fault> {
    prop_oneof![
        2 => Just(Fault::None),
        1 => Just(Fault::ExistingLonger),
        1 => Just(Fault::MissingDir),
        1 => Just(Fault::MissingDirDotDot),
        1 => Just(Fault::SymlinkDirDotDot),
        1 => Just(Fault::IsDir),
        1 => Just(Fault::ParentIsFile),
        1 => Just(Fault::NameTooLong),
        1 => Just(Fault::EmbeddedNul),
        1 => Just(Fault::EmptyPath),
        1 => Just(Fault::ReadOnlyProc),
        1 => Just(Fault::ReadOnlySys),
        2 => Just(Fault::DevFull),
        1 => Just(Fault::ReadOnlyDir),
        1 => Just(Fault::ReadOnlyFile),
        1 => Just(Fault::DanglingSymlink),
        1 => Just(Fault::SymlinkLoop),
        1 => Just(Fault::SymlinkToLonger),
        1 => Just(Fault::ExistingSameLengthTail),
        1 => Just(Fault::ExistingSameLengthHead),
        1 => Just(Fault::ExistingPrefixEqual),
        6 => prop_oneof![1 => Just(0u32), 1 => Just(999u32), 4 => 0u32..1000].prop_map(Fault::ShortWrite),
        2 => Just(Fault::PipeClosedEarly),
        1 => Just(Fault::PipeDrained),
    ]
    .boxed()
}

pub fn run(e: &'static Engine) {
    e.set_rule(
        "Generated: QR (versions 1-6 mostly, some up to 40 for multi-write sizes) x renderer options (margin, shapes, colours, \
         image) x writer in {SvgBuilder::to_file, ImageBuilder::to_file} x fault class: none (fresh file), existing longer file \
         (must be truncated), missing parent directory, path is a directory, parent is a regular file, 300-byte name, embedded NUL, \
         empty path, /proc and /sys locations (read-only pseudo file systems), a directory / an existing file without write permission (written by an unprivileged child process), /dev/full (ENOSPC at write time), and a short write \
         at a generated offset L in [0, len) produced in a child process with SIGXFSZ ignored and RLIMIT_FSIZE = L. Every class is \
         also enumerated once per writer. Oracle: no panic; Ok(()) => file bytes == to_str() / to_bytes() of the same builder and QR; \
         fault injected => Err whose conversion into ConvertError is the Io variant; never Ok with a differing file. Fault classes \
         the environment does not provide (probed first) are skipped and labelled, never asserted. Non-trivial: a fault was injected; \
         distinct by (writer, class, L bucket of 5%, QR).",
    );
    e.extend_rule("the process works inside its scratch directory (logo.png, imgs/mark.png, out/ with different files of the same names): destinations absolute / relative / in the sub-directory, file-name extensions independent of the writer, PNG cases that really load an image (relative file, data URI, missing file); the writing renderer goes through the warm-up while the expected bytes come from a fresh one; existing-file classes (same length different head / tail, document plus extra bytes), symlink classes; the case is JSON-round-tripped before use. Pipe classes: the destination is a FIFO shrunk to the kernel's minimal capacity whose reader takes 16 bytes and goes away (a document longer than capacity + 16 + one page must be answered with an error; shorter ones are labelled unasserted) or drains everything (Ok, and the reader holds exactly the rendering). Concurrent exports: two threads released by a barrier write <stem>.svg and <stem>.png of one code into one directory, 40 rounds per case; every call must return Ok and leave exactly its own rendering in its own file.");
    e.assume("the harness runs as root, for which file permissions do not apply: read-only locations are exercised through /proc, /sys, /dev/full, and through a child process that drops to uid/gid 65534 before writing into a 0555 directory / over a 0444 file (skipped and labelled if setuid is unavailable)");
    e.assume("RLIMIT_FSIZE with SIGXFSZ ignored makes the kernel return a partial write followed by EFBIG at exactly L");
    crate::engine::run_regress(e, &|c, o| replay(e, c, o));
    let all_faults = vec![
        Fault::None, Fault::ExistingLonger, Fault::MissingDir, Fault::MissingDirDotDot, Fault::SymlinkDirDotDot, Fault::IsDir, Fault::ParentIsFile, Fault::NameTooLong, Fault::EmbeddedNul,
        Fault::EmptyPath, Fault::ReadOnlyProc, Fault::ReadOnlySys, Fault::DevFull, Fault::ReadOnlyDir, Fault::ReadOnlyFile, Fault::DanglingSymlink, Fault::SymlinkLoop, Fault::SymlinkToLonger, Fault::ExistingSameLengthTail, Fault::ExistingSameLengthHead, Fault::ExistingPrefixEqual, Fault::ShortWrite(0), Fault::ShortWrite(1), Fault::ShortWrite(500), Fault::ShortWrite(999), Fault::PipeClosedEarly, Fault::PipeDrained,
    ];
    let mut jobs: Vec<Job> = Vec::new();
    for (wi, writer) in [Writer::Svg, Writer::Png].into_iter().enumerate() {
        for (fi, fault) in all_faults.iter().cloned().enumerate() {
            jobs.push(Box::new(move |jc: &mut JobCtx| {
                let f = fault.clone();
                let strat = (0usize..24, any::<bool>()).prop_flat_map(|(ci, fv)| case_in_cell(Cell::from_index(ci), Force { mode: false, level: true, version: fv }, None)).prop_map(move |(b, _)| Case {
                    build: b,
                    cfg: SvgCfg::default(),
                    writer,
                    fault: f.clone(),
                    dest: ((wi + fi) % 4) as u8,
                    name: ((wi * 3 + fi) % 8) as u8,
                });
                jc.run_prop((wi * 100 + fi) as u64 + 1, &strat, 1, to_json, |c, o| {
                    o.label("part:enumerated_fault_classes");
                    check(c, o)
                });
            }));
        }
    }
    e.par(jobs);
    let total: u32 = e.tier.pick(1600, 12800);
    let shards = e.tier.pick(16u32, 64);
    let mut jobs: Vec<Job> = Vec::new();
    for _ in 0..shards {
        jobs.push(Box::new(move |jc: &mut JobCtx| {
            let strat = (
                prop_oneof![6 => 0usize..72, 1 => 0usize..480],
                any::<bool>(),
                super::c12::cfg_strategy(),
                prop_oneof![Just(Writer::Svg), Just(Writer::Png)],
                fault_strategy(),
                0u8..4,
                0usize..8,
                prop_oneof![2 => Just(0u8), 3 => 0u8..8],
            )
                .prop_flat_map(|(ci, fv, cfg, writer, fault, dest, img, name)| {
                    case_in_cell(Cell::from_index(ci), Force { mode: false, level: true, version: fv }, None).prop_map(move |(b, _)| {
                        let mut cfg = cfg.clone();
                        if writer == Writer::Png {
                            // a raster of (size + 2 x margin)^2 pixels: keep the margin moderate
                            cfg.margin = cfg.margin.map(|m| if m > 300 { m % 64 } else { m });
                            // the raster pipeline loads the referenced image: only references that mean something here
                            // (files of the scratch directory by relative path, a data URI, a missing file), or none
                            cfg.image = match (cfg.image.is_some(), PNG_IMAGES.get(img)) {
                                (true, Some(&"@data")) => Some(super::c18::solid_png_uri([200, 100, 0])),
                                (true, Some(i)) => Some(i.to_string()),
                                _ => None,
                            };
                            // CSS colour names the rasteriser may not know are irrelevant here
                            cfg.layers.iter_mut().for_each(|l| if matches!(l.1, Some(ColorSpec::Css(_))) { l.1 = None });
                            if matches!(cfg.module_color, Some(ColorSpec::Css(_))) { cfg.module_color = None; }
                            if matches!(cfg.background, Some(ColorSpec::Css(_))) { cfg.background = None; }
                        }
                        Case { build: b, cfg, writer, fault: fault.clone(), dest, name }
                    })
                });
            jc.run_prop(1 << 20, &strat, total / shards, to_json, |c, o| {
                o.label("part:generated");
                check(c, o)
            });
        }));
    }
    e.par(jobs);
    // two exports at the same time (the SVG and the PNG of one code, into one directory)
    let conc_cases: u32 = e.tier.pick(4, 24);
    let mut jobs: Vec<Job> = Vec::new();
    for _ in 0..8 {
        jobs.push(Box::new(move |jc: &mut JobCtx| {
            let strat = ((0usize..24).prop_flat_map(|ci| case_in_cell(Cell::from_index(ci), Force { mode: false, level: true, version: false }, None)), prop_oneof![3 => Just(true), 1 => Just(false)]);
            jc.run_prop(1 << 21, &strat, conc_cases, |((b, _), same)| json!({"concurrent": {"build": b.to_json(), "same_stem": same, "rounds": 40}}), |((b, _), same), o| {
                o.label("part:concurrent_exports");
                check_concurrent(b, *same, 40, o)
            });
        }));
    }
    e.par(jobs);
    let _ = std::fs::remove_dir_all(scratch_dir());
    e.set_exhaustive(false, "every fault class x both writers is enumerated at least once; QR codes, options and short-write offsets are sampled");
}
