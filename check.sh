#!/bin/bash
# Single entry point for every MANIFEST command.
#   check.sh setup                      build the harness offline
#   check.sh <ID> quick|thorough        run the check for one property (exit 0 / 1 / 2)
#   check.sh <ID> --replay <file.json>  re-execute one saved case through the oracle
# Exit codes: 0 property held on everything explored; 1 violation (a line
# "VIOLATION property=<id> replay=<path>" is printed); 2 inconclusive / infrastructure
# (build failure, watchdog, harness defect) — never reported as a violation.
set -u
VERIF="${FQV_VERIF_DIR:-/verif}"
CALLER_DIR="$PWD"
cd "$VERIF/harness" || exit 2
export CARGO_NET_OFFLINE=true
export CARGO_TERM_COLOR=never

build() {
    # always rebuild from /repo's current working tree (cargo fingerprints the path dependency)
    if ! cargo build --release --offline -p fqv >"$VERIF/harness/build.log" 2>&1; then
        echo "BUILD-FAILED: the harness or /repo (with --cfg fast_qr_verif, feature image) does not compile; see $VERIF/harness/build.log"
        grep -E "^error" -A8 "$VERIF/harness/build.log" | head -40
        exit 2
    fi
}

# Second binary: the same harness against fast_qr compiled WITHOUT --cfg fast_qr_verif (the hooks are gone, and so is
# anything else in fast_qr that depends on the flag). Every check that does not live on the hooks runs its quick-size
# pass there first, with the same seed: what a check decides must not depend on the flag its hooks are guarded by.
build_plain() {
    if ! RUSTFLAGS="--cfg fqv_plain" cargo build --release --offline -p fqv --target-dir "$VERIF/harness/target-plain" >"$VERIF/harness/build-plain.log" 2>&1; then
        echo "BUILD-FAILED: the harness or /repo (without --cfg fast_qr_verif, feature image) does not compile; see $VERIF/harness/build-plain.log"
        grep -E "^error" -A8 "$VERIF/harness/build-plain.log" | head -40
        exit 2
    fi
}

case "${1:-}" in
    setup)
        build
        build_plain
        "$VERIF/harness/target/release/fqv" selftest full || exit 2
        exit 0
        ;;
    "")
        echo "usage: check.sh setup | check.sh <ID> quick|thorough | check.sh <ID> --replay <file>"
        exit 2
        ;;
esac

ID="$(echo "$1" | tr a-z A-Z)"
shift
build
case "$ID" in
    C07|C11|C17) PLAIN=0 ;;   # these observe fast_qr through the guarded hooks only
    *) PLAIN=1; build_plain ;;
esac
if [ "${1:-}" = "--replay" ]; then
    case "${2:-}" in
        /*) FILE="$2" ;;
        *) FILE="$CALLER_DIR/${2:-}" ;;   # relative to where check.sh was called from
    esac
    # a replay file found by the pass without the verification flag is re-executed there
    if [ $PLAIN -eq 1 ] && grep -q '"plain_build": *true' "$FILE" 2>/dev/null; then
        exec "$VERIF/harness/target-plain/release/fqv" "$ID" --replay "$FILE"
    fi
    exec "$VERIF/harness/target/release/fqv" "$ID" --replay "$FILE"
fi
TIER="${VERIF_TIER:-${1:-quick}}"
if [ $PLAIN -eq 1 ]; then
    VERIF_TIER=quick "$VERIF/harness/target-plain/release/fqv" "$ID" quick
    rc=$?
    if [ $rc -ne 0 ]; then
        exit $rc
    fi
fi
"$VERIF/harness/target/release/fqv" "$ID" "$TIER"
rc=$?
if [ $rc -ne 0 ]; then
    exit $rc
fi
# thorough tiers of some properties add a coverage-guided fuzz campaign with the same oracle
if [ "$TIER" = "thorough" ] && [ -x "$VERIF/fuzz/run_campaign.sh" ]; then
    "$VERIF/fuzz/run_campaign.sh" "$ID"
    exit $?
fi
exit 0
