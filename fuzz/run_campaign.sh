#!/bin/bash
# Coverage-guided campaign (libFuzzer via cargo-fuzz) for one property; called by check.sh for the thorough tier.
#   run_campaign.sh <ID> [runs-per-process]
# 16 independent libFuzzer processes (seeds VERIF_SEED*16+k, fixed -runs, fresh corpus directories initialised from
# fuzz/seeds/<target>/) run the target that serves the property with ONLY that property's oracle enabled
# (FQV_FUZZ_PROPS). The oracle is inside the target; a failure writes replays/<ID>/fuzz-*.json and prints the VIOLATION
# line. Statistics of every process are merged into evidence/<ID>.json under coverage.fuzz.
# Exit: 0 nothing found; 1 violation; 2 infrastructure (build failure, time budget hit = inconclusive).
set -u
ID="$1"
VERIF="${FQV_VERIF_DIR:-/verif}"
FUZZ="$VERIF/fuzz"
SEED="${VERIF_SEED:-0}"
PROCS="${FQV_FUZZ_PROCS:-16}"
case "$ID" in
  C10|C01|C02|C03|C04|C05|C06|C09|C15|C16) T=build ;;
  C08|C11) T=masks ;;
  C12|C13|C18) T=svg ;;
  C17) T=wasm ;;
  C07) T=division ;;
  C14) T=history ;;
  *) exit 0 ;;   # no fuzz target serves this property (C19: fault injection needs child processes)
esac
# runs per process and input length limit per property (cost per execution differs by two orders of magnitude)
case "$ID" in
  C10|C01|C05|C06|C09|C03|C15|C16|C04) RUNS=150000; MAXLEN=8200 ;;
  C02) RUNS=80000; MAXLEN=8200 ;;
  C08) RUNS=20000; MAXLEN=3000 ;;
  C11) RUNS=60000; MAXLEN=600 ;;
  C12|C18) RUNS=150000; MAXLEN=256 ;;
  C13) RUNS=8000; MAXLEN=128 ;;
  C17) RUNS=150000; MAXLEN=9000 ;;
  C07) RUNS=1000000; MAXLEN=200 ;;
  C14) RUNS=40000; MAXLEN=1200 ;;
esac
RUNS="${2:-${FQV_FUZZ_RUNS:-$RUNS}}"
BUDGET="${FQV_FUZZ_BUDGET_S:-3000}"
export CARGO_NET_OFFLINE=true
cd "$FUZZ" || exit 2
if ! RUSTFLAGS="--cfg fast_qr_verif" cargo +nightly fuzz build --fuzz-dir "$FUZZ" -s none --no-trace-compares "fz_$T" >"$FUZZ/build.log" 2>&1; then
  echo "FUZZ-BUILD-FAILED target fz_$T (see $FUZZ/build.log)"; grep -E "^error" -A6 "$FUZZ/build.log" | head -30
  exit 2
fi
BIN="$FUZZ/target/x86_64-unknown-linux-gnu/release/fz_$T"
# payload-carrying targets get the dictionary of special byte sequences
DICT=""
case "$T" in build|masks|wasm|history) DICT="-dict=$FUZZ/dict/payload.dict" ;; esac
WORK="$FUZZ/work/$ID"
rm -rf "$WORK"; mkdir -p "$WORK"
pids=()
for k in $(seq 0 $((PROCS-1))); do
  mkdir -p "$WORK/corpus$k" "$WORK/art$k"
  cp "$FUZZ/seeds/$T"/* "$WORK/corpus$k/" 2>/dev/null
  ( cd "$WORK" && FQV_FUZZ_PROPS="$ID" FQV_FUZZ_STATS="$WORK/stats$k.json" FQV_VERIF_DIR="$VERIF" \
      timeout "$BUDGET" "$BIN" "corpus$k" $DICT -artifact_prefix="art$k/" -runs="$RUNS" -seed=$((SEED*16+k+1)) -max_len="$MAXLEN" -len_control=0 \
      -rss_limit_mb=4096 -timeout=120 -print_final_stats=1 >"log$k.txt" 2>&1; echo $? >"rc$k" ) &
  pids+=($!)
done
for p in "${pids[@]}"; do wait "$p"; done
python3 - "$ID" "$T" "$WORK" "$VERIF" "$RUNS" "$PROCS" "$SEED" <<'PY'
import json, sys, glob, os, re
ID, T, WORK, VERIF, RUNS, PROCS, SEED = sys.argv[1:8]
viol, rcs, execs, cov, feats, corpus = [], [], 0, 0, 0, 0
stats = {"evaluations": 0, "distinct_nontrivial": 0, "labels": {}, "samples": [], "excluded_known": 0}
timeouts = 0
for k in range(int(PROCS)):
    log = open(f"{WORK}/log{k}.txt", errors="replace").read()
    rc = int(open(f"{WORK}/rc{k}").read().strip() or 0)
    rcs.append(rc)
    if rc == 124: timeouts += 1
    for l in log.splitlines():
        if l.startswith("VIOLATION"): viol.append(l.strip())
    m = re.findall(r"stat::number_of_executed_units:\s*(\d+)", log)
    if m: execs += int(m[-1])
    m = re.findall(r"cov: (\d+) ft: (\d+) corp: (\d+)", log)
    if m:
        cov = max(cov, int(m[-1][0])); feats = max(feats, int(m[-1][1])); corpus += int(m[-1][2])
    try:
        s = json.load(open(f"{WORK}/stats{k}.json"))
        stats["evaluations"] += s["evaluations"]; stats["distinct_nontrivial"] += s["distinct_nontrivial"]; stats["excluded_known"] += s["excluded_known"]
        for a, b in s["labels"].items(): stats["labels"][a] = stats["labels"].get(a, 0) + b
        if len(stats["samples"]) < 12: stats["samples"] += s["samples"][:2]
    except Exception: pass
# crashes that are not oracle failures (ASan report, libFuzzer timeout/oom): inconclusive unless a VIOLATION line exists
other = [k for k, rc in enumerate(rcs) if rc not in (0, 124) and not any(True for _ in viol)]
ev_path = f"{VERIF}/evidence/{ID}.json"
try:
    ev = json.load(open(ev_path))
    ev["coverage"]["fuzz"] = {"engine": "libFuzzer (cargo-fuzz, no sanitizer: fast_qr denies unsafe code; debug assertions + overflow checks on)", "target": "fz_" + T, "oracle": ID, "processes": int(PROCS),
        "runs_per_process": int(RUNS), "seed_base": int(SEED) * 16 + 1, "executions": execs, "oracle_evaluations": stats["evaluations"],
        "distinct_nontrivial_upper_bound": stats["distinct_nontrivial"], "edge_coverage_max": cov, "features_max": feats, "corpus_units_total": corpus,
        "labels": stats["labels"], "samples": stats["samples"], "excluded_known": stats["excluded_known"], "violations": len(viol),
        "processes_hit_time_budget": timeouts, "note": "processes do not share a corpus; distinct_nontrivial is summed per process (upper bound)"}
    ev["coverage"]["evaluations"] += stats["evaluations"]
    ev["violations"] = ev.get("violations", 0) + len(viol)
    json.dump(ev, open(ev_path + ".tmp", "w"), indent=1); os.replace(ev_path + ".tmp", ev_path)
except Exception as e:
    print("could not merge fuzz statistics into evidence:", e)
print(f"{ID} fuzz target=fz_{T} processes={PROCS} executions={execs} cov={cov} ft={feats} violations={len(viol)} timeouts={timeouts}")
for l in sorted(set(viol))[:8]: print(l)
if viol: sys.exit(1)
if other:
    print(f"INCONCLUSIVE property={ID} fuzz process(es) {other} ended abnormally without an oracle failure (see {WORK}/log*.txt)"); sys.exit(2)
if timeouts:
    print(f"INCONCLUSIVE property={ID} {timeouts} fuzz process(es) hit the {os.environ.get('FQV_FUZZ_BUDGET_S', '3000')} s budget before finishing their runs"); sys.exit(2)
sys.exit(0)
PY
rc=$?
# keep artifacts of a failing campaign, drop the bulky corpora otherwise
if [ $rc -eq 0 ]; then rm -rf "$WORK"; fi
exit $rc
