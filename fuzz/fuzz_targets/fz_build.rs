#![no_main]
// libFuzzer target "build": decoding, oracles and reporting live in fqv::fuzzrt (shared with the proptest tiers)
use libfuzzer_sys::fuzz_target;

fuzz_target!(|data: &[u8]| {
    fqv::fuzzrt::run_one("build", data);
});
