#!/usr/bin/env python3
"""Regenerates /verif/MANIFEST.json from the table below (keeps it valid at all times)."""
import json, subprocess, sys

BUILT = sys.argv[1].split(",") if len(sys.argv) > 1 else ["C%02d" % i for i in range(1, 20)]

P = {
 "C01": ("exploration", "5/C01", "proptest generation inside exhaustively enumerated configuration cells plus automatic-mask tie sweeps, block-boundary lengths and steered matrices; round-trip through an independent ISO 18004 reference decoder; libFuzzer campaign (fz_build) with the same oracle (thorough)",
         "Every (version, level, mask setting) combination is built in every run with generated boundary-biased payloads and must decode, with the independent reference decoder, to exactly one segment equal to the input. Exhaustive over configuration cells, sampled over payload content; no absence proof.",
         "Trusted: refmodel reference decoder (self-tested against the third-party qrcode crate on 480+ symbols, Table 9 identities), proptest."),
 "C02": ("exploration", "5/C02", "enumerated (version, level, mask) cells x generated payloads, padded forced versions with block-boundary lengths; syndrome oracle over an independently computed GF(256); generated error injection decoded by a reference Berlekamp-Massey RS decoder; libFuzzer campaign (thorough)",
         "All 160 (version, level) x 8 masks are visited in every run: remainder bits zero, Table 9 block split, all syndromes zero, data-block order; up to floor(ec/2) corrupted codewords per block (generated positions/values, module flips in the matrix) must be corrected. Sampled over payloads and corruption patterns.",
         "Trusted: typed reference Table 9 (guarded by total-codeword identities and the qrcode-crate self-test), computed GF arithmetic, reference RS decoder (unit tested)."),
 "C03": ("exploration", "5/C03", "exhaustive enumeration of version x level x mask with generated payloads, plus random/tie/padded/steered cases; differential against a function-pattern map drawn from the ISO figures; libFuzzer campaign (thorough)",
         "Every coordinate of every symbol in all 40 x 4 x 9 configuration cells is compared with the payload-free reference map; the backing array beyond size*size must stay light/data. Payloads sampled.",
         "Trusted: refmodel geometry (finder/separator/timing/alignment/dark module), anchored by qrcode-crate symbols of all 40 versions."),
 "C04": ("exploration", "5/C04", "exhaustive enumeration of the 1280 forced (level, mask, version) cells plus generated forced/automatic option sets and an automatic-mask tie sweep; BCH words computed by polynomial division; physical mask identified by reference decoding; libFuzzer campaign (thorough)",
         "Both format copies and (v>=7) both version blocks are read at the ISO positions and compared with computed BCH codewords; reported fields must equal the physical content, forced options and the Q default; the named mask must be the applied one. Exhaustive over the forced cells, sampled over payloads/option subsets.",
         "Trusted: BCH generator polynomials and the ISO Figure 25 coordinate lists in refmodel (Annex C/D examples unit-tested; qrcode-crate self-test)."),
 "C05": ("exploration", "5/C05", "exhaustive enumeration of every length 0..=7200 x mode x level, all thresholds x forced versions; capacity-formula oracle; proptest over arbitrary contents and option combinations; libFuzzer campaign (thorough)",
         "Decides version selection for every length up to beyond V40 capacity (86k builds per run), every threshold +-1 against forced versions, far-over-capacity lengths; Ok/Err kind, error variant, no panic, round trip at capacity.",
         "Trusted: capacity formula from geometry-derived codeword totals and typed Table 9; equals qrcode crate max_len for all 160 cells."),
 "C06": ("exploration", "5/C06", "enumerated (version, level, mode) cells x boundary lengths x generated payload families, padded forced versions; byte-for-byte differential against a reference ISO 7.4 encoder; libFuzzer campaign (thorough)",
         "All data codewords of the symbol (read out and de-interleaved by the reference) must equal the reference bit stream including terminator, bit padding and pad codewords, in all 480 cells at lengths leaving 0..12 spare bits and all residues.",
         "Trusted: reference encoder (identical matrices to the qrcode crate in the self-test)."),
 "C07": ("exploration", "5/C07", "exhaustive single-non-zero-byte basis enumeration and generator-table identities through a guarded hook; proptest blocks (zero runs, multiples of g) against schoolbook GF(256) division; libFuzzer campaign fz_division, 16 M executions (thorough)",
         "Generator mapping exhaustively for 160 cells; the division routine on every position x value of unit blocks for the chosen block shapes (all shapes in thorough) and on generated blocks for every shape in use. Closest to a decision: the map is linear when the tables are right and any single table fault is hit by the basis.",
         "Hook verif_hooks::division/generator are plain re-exports. Trusted: shift-and-reduce GF multiplication with 0x11D."),
 "C08": ("exploration", "5/C08", "metamorphic relation between the 8 forced-mask builds and the automatic-mask build of one generated payload, all 28 pairs x every coordinate, all 160 (version, level) cells, tie sweep in small versions, steered matrices; libFuzzer campaign fz_masks (thorough)",
         "XOR of two builds must equal the XOR of the ISO Table 10 conditions on the encoding region, be free on format modules and zero elsewhere; un-masking by the named mask gives one matrix. Exhaustive over versions/levels/pairs/coordinates, payloads sampled.",
         "Trusted: Table 10 predicates (i=row, j=column) and region map in refmodel."),
 "C09": ("exploration", "5/C09", "exhaustive enumeration of all strings of length <= 2, all class patterns up to length 8, all bytes at all positions of context strings; reference classifier oracle; proptest long strings with intruders",
         "Automatic mode, the physical mode indicator and the round trip are compared with a classifier written from the 45-character list on ~115k strings per run, exhaustive for short strings.",
         "Trusted: the 45-character set; reference decoder."),
 "C10": ("exploration", "5/C10", "proptest over arbitrary byte strings x all option combinations with alphabet-mapped inputs for forced modes, catch_unwind oracle under overflow/debug assertions, watchdog with isolated re-run; libFuzzer campaign (thorough)",
         "No panic / overflow / out-of-bounds, only documented errors, termination; boundary lengths enumerated for all 480 cells, the rest sampled. Cannot prove absence.",
         "Harness profile enables debug-assertions and overflow-checks in fast_qr; hangs count only if reproduced twice in a child process."),
 "C11": ("exploration", "5/C11", "independent penalty model evaluated on candidates derived independently from the emitted symbol (two format-area conventions accepted); recorder hook for candidate identity; arg-min oracle over generated payloads in all 160 cells, tie-rich small versions, steered matrices, each after a generated same-thread prelude; libFuzzer campaign fz_masks (thorough)",
         "For every automatic build the 8 recorded candidates must be the 8 ISO masks on identical codewords and the emitted mask must minimise the documented penalty computed by an independent model; forced masks override. Model equals the crate's ranking score on all candidates of the repaired tree (calibration counter).",
         "Hook records the candidate as scored. Trusted: penalty model written from the crate's documentation and the property text; floor-percent reading of the 5% rule."),
 "C12": ("exploration", "5/C12", "proptest renderer configurations (shape programs, colours, margins, hostile image strings) x QR codes; roxmltree well-formedness and an SVG path interpreter mapping sub-paths one-to-one onto dark modules; libFuzzer campaign (thorough)",
         "Well-formedness, viewBox/background, one path per layer in order with the right fill, exactly one sub-path per dark module inside its cell and none elsewhere, shape-kind discriminators, image href round trip. All versions / shapes / shape pairs enumerated, rest sampled.",
         "Trusted: roxmltree; the harness's path interpreter (unit-tested on the built-in shapes)."),
 "C13": ("exploration", "5/C13", "enumerated shapes x versions x margins plus proptest colours/fit requests; pixel oracle (every pixel for squares at integer scale, centre sampling at >= 4 px/module) and independent PNG decode",
         "Pixmap side, dark/light/quiet-zone pixel colours and PNG equality for all 6 shapes; property asserted only in the domain it states (>=1 px exact for squares, >=4 px centres).",
         "resvg/usvg/tiny-skia are under test with fast_qr; png crate trusted; +-2/255 tolerance only for partially transparent backgrounds."),
 "C14": ("exploration", "5/C14", "model-based stateful generation: proptest op sequences (setters, builds, near-collision builds, renders) run by an interpreter against a last-value-wins model; references from a fresh builder, a fresh thread and a cold child process (asked when the specification-level model disagrees and for a sample); barrier-released multi-thread rounds incl. tight loops of small mixed-version builds; libFuzzer campaign fz_history (thorough)",
         "Histories of setters/builds/renders must agree with fresh canonical builds byte for byte; renderers must be stable, history-independent and must not modify the QR code; 1..16-thread rounds must reproduce the sequential results. Schedules are sampled by stress, not controlled.",
         "No scheduler control (stated limit); byte equality of the full 31 329-byte matrix and fields."),
 "C15": ("exploration", "5/C15", "exhaustive enumeration of version x level x mask, every coordinate; differential against the reference region map; user-callback observation through Shape::Command",
         "Every module's type label equals the image of its ISO region, data-label count equals the geometry formula, and a shape callback sees the same labels at (col+margin, row+margin). Exhaustive over cells/coordinates, payloads sampled.",
         "Trusted: refmodel region map."),
 "C16": ("exploration", "5/C16", "all 40 sizes x generated symbols and steered matrices (uniform rows with isolated modules at word-size boundaries, run patterns); the text rendering is decoded back into half-rows and compared with the matrix and border; libFuzzer campaign (thorough)",
         "Line count, line width, alphabet, exact module reproduction and the one-module light border on all four sides for every size.",
         "Half-row 0 above the top border is not constrained (outside the stated border)."),
 "C17": ("exploration", "5/C17", "proptest setter programs (any order, repetition, malformed colours, odd-length vectors, NaN/inf) x content strings against the native builder driven by a model of the program; host-compiled wasm.rs via a guarded hook; libFuzzer campaign (thorough)",
         "No panic for any program; matrix export equals the native build; SVG export byte-equal to the native builder for programs with well-formed values, empty exactly when unencodable.",
         "wasm.rs observed on the host target; wasm-bindgen glue not exercised; margin limited to 0..=64."),
 "C18": ("exploration", "5/C18", "exhaustive enumeration of default placements (40 versions x 3 shapes x 17 margins) and proptest real-valued overrides; geometric oracle on parsed rect/image attributes",
         "Default frames: centred, module-aligned, monotone in version, < 40% of the side, clear of finders, image centred and no larger; overrides honoured within the stated half-module adjustment.",
         "Tolerance 1e-9 on full-precision attributes, 0.006 on two-decimal ones; requested sizes >= 1 module."),
 "C19": ("fault_enumeration", "5/C19", "fault injection: enumerated create-time fault classes and generated short-write offsets (RLIMIT_FSIZE in a child process) x generated QR/renderer options x both writers",
         "Ok implies file bytes equal the in-memory rendering (also over a longer pre-existing file); every injected fault yields Err convertible to ConvertError::Io and never a panic; every class enumerated per writer, offsets sampled.",
         "Runs as root: read-only locations via /proc, /sys, /dev/full; each fault class is probed first and skipped (labelled) if the environment does not provide it."),
}

# dimensions added after the seeded rounds (DESIGN.md §11.5); appended to the technique text of each check
EXTRA = {
 "C01": "histories (related predecessor builds incl. one that panics mid-encoding, builder warm-up with any mode / only changed setters re-sent); payload families UTF-8 text, special-token dictionary, class runs, extreme whole-symbol textures, codeword-steered block look-alikes; forced modes the input may not fit and lengths just beyond a pinned version's capacity (a symbol, if returned, must decode); row view (Index) == data",
 "C02": "the shared generated parts (random cells, tie sweep, steered matrices, block look-alikes: padding look-alikes, zero / constant / near-copy / generator-multiple / prefix-plus-own-remainder blocks, realistic payloads, extreme textures) with and without generated corruption; part long_lived_thread (2^8 / 2^16 builds on one thread with the generator changing at every build, checked across the wrap)",
 "C03": "side == 17+4 x the REPORTED version; every Clone copy (clone, clone_from onto larger and smaller symbols) equals the original byte for byte; row view == data; extreme textures and block look-alikes; predecessor 9 (datamasking::mask applied to a blank canvas of the coming size on the same thread)",
 "C04": "every statement also on Clone copies (incl. clone_from onto a symbol of another level/mask/mode); the first four bits of the data stream are the reported mode's indicator (read directly, also when the rest does not parse); wasm entry points",
 "C05": "wasm exports qr/qr_svg with forced versions around the minimum; every special token at every Byte threshold -1..+4; class runs",
 "C06": "well-formed UTF-8 text at version borders; special tokens; block look-alikes",
 "C07": "division HISTORIES on one thread with call counts around 2^k; symbol-level check on block look-alikes (padding look-alikes, near-copies)",
 "C08": "default-level edge cases; cold first-use part: the eight pinned masks as the first use of the crate in a fresh process on 16 threads",
 "C09": "class runs with lengths 2^k +- 1, realistic payloads with token prefix/suffix, pinned minimal version / default level",
 "C10": "lengths around 2^16..2^20, special tokens, class runs, predecessors that panic or fail",
 "C11": "enumerated extreme textures (the symbols with the largest penalty terms: flat, mask-pattern, finder-ratio fills) in all listed versions; part dark_ratio_boundary (a candidate steered by search exactly onto / one module below the 5 % steps of the dark-share term)",
 "C12": "image geometry over the whole finite range, margins on 10^k / 2^k boundaries up to 100 000, renderer warm-up perturbing every last-value-wins option or happening before the last layer, thread predecessors (multi-layer / failing render); modules toggled in place after build() (finder zones, timing row, anywhere) in a third of the cases",
 "C13": "wide margins on 10^k / 2^k boundaries, fits below the symbol size, 0..2 opaque layers under the top layer (painter's model), embedded image in a square frame (only cells clear of frame and image are asserted), renderer warm-up / thread predecessors; modules toggled in place after build() (finder zones, timing row, anywhere) in a third of the cases",
 "C14": "overwrite pairs and unfit modes in setter histories, Repeat ops (2^8 / 2^10 builds in a row), failing renders, cold reference process under 12 generated environments, cold concurrent rounds (first use of the crate under contention); part concurrent_file_exports (two threads write <stem>.svg and <stem>.png of one code into one directory at the same time)",
 "C15": "map of the REPORTED version; Clone copies byte-identical; re-entrant callback (builds and renders inside the callback); raster callback observer",
 "C16": "locale / terminal environment phases (stored in replays), print() in a child process, edit-and-render-again on the same object and its clone, predecessor renders on the thread (failing / other symbol); modules toggled in place after build() in a third of the cases",
 "C17": "content with multi-script UTF-8 text and edge tokens (byte-order mark, zero-width / no-break space, white space, NUL, line ends, ]Q1, ECI escape, URI schemes) at the start / end; colour palette strings; bare base64 images",
 "C18": "overrides through the wasm export; sizes / gaps beyond the canvas; raster cross-check of every cell whose centre lies outside frame and image",
 "C19": "process works inside its scratch directory: relative / sub-directory destinations, file-name extensions independent of the writer, really loaded images (relative files, data URI, missing), writers that rendered before (warm-up), existing-file classes; case JSON-round-tripped before use; fault classes PipeClosedEarly / PipeDrained (FIFO destination of minimal capacity whose reader goes away after 16 bytes / drains everything); part concurrent_exports (two writers, same stem, same directory, at the same time)",
}

def main():
    repo_commits = subprocess.run(["git", "-C", "/repo", "log", "--format=%H %s"], capture_output=True, text=True).stdout.splitlines()
    hook_commits = [l.split()[0] for l in repo_commits if " verif hook:" in l]
    checks = []
    na = []
    for pid in ["C%02d" % i for i in range(1, 20)]:
        if pid in BUILT and pid in P:
            cat, ref, tech, text, note = P[pid]
            checks.append({
                "property_id": pid,
                "quick_cmd": "./check.sh %s quick" % pid,
                "thorough_cmd": "./check.sh %s thorough" % pid,
                "evidence_file": "/verif/evidence/%s.json" % pid,
                "replay_cmd_template": "./check.sh %s --replay {path}" % pid,
                "engine": "fqv",
                "level_claimed": {"category": cat, "text": text, "design_ref": "DESIGN.md §" + ref},
                "level_note": note,
                "technique": tech + ("; added after the seeded rounds: " + EXTRA[pid] if pid in EXTRA else "") + ("" if pid in ("C07", "C11", "C17") else "; every run first repeats its quick-size pass, same seed, against fast_qr compiled WITHOUT --cfg fast_qr_verif (second harness binary, harness/target-plain)"),
            })
        else:
            na.append({"property_id": pid, "reason": "check not built yet in this session (planned: see DESIGN.md §5); nothing is claimed for it"})
    m = {
        "version": 1,
        "setup_cmd": "./check.sh setup",
        "hooks": {
            "guard": "--cfg fast_qr_verif",
            "enable": "RUSTFLAGS='--cfg fast_qr_verif' (set in /verif/harness/.cargo/config.toml [build] rustflags; cargo-fuzz targets get it through the RUSTFLAGS environment variable). check.sh also builds the harness a second time with the guard OFF (RUSTFLAGS='--cfg fqv_plain', harness/target-plain): every check except C07, C11, C17 (which observe fast_qr through the hooks only) first runs against that build",
            "baseline_off_cmd": "cd /repo && cargo test --workspace --no-fail-fast --offline",
            "source_commits": hook_commits,
            "add_only": True,
        },
        "engines": [
            {"name": "fqv", "path": "/verif/harness/fqv", "serves_properties": [c["property_id"] for c in checks],
             "kind_free_text": "Rust library + binary: proptest strategies driven by a deterministic sharded runner (seeded from VERIF_SEED), exhaustive enumeration of the finite configuration dimensions, oracles from the independent reference model in /verif/harness/refmodel, shrinking to a JSON replay; replays regress/ sentinels and the fuzz seed corpus in every run. Built twice: with the hook guard on (target/) and off (target-plain/, hook-only modules compiled out)"},
            {"name": "fqv-fuzz", "path": "/verif/fuzz", "serves_properties": [c["property_id"] for c in checks if c["property_id"] != "C19"],
             "kind_free_text": "cargo-fuzz / libFuzzer targets fz_build, fz_masks, fz_svg, fz_wasm, fz_division, fz_history whose bodies call the same oracles (fqv::fuzzrt); driven by fuzz/run_campaign.sh in the thorough tier: 16 processes, fixed -runs, seeds derived from VERIF_SEED"},
        ],
        "checks": checks,
        "not_applicable": na,
        "notes": "All commands run with cwd=/verif. Exit 0 = held, 1 = VIOLATION line printed, 2 = inconclusive/infrastructure (build failure, watchdog, oracle self-test). Runs are a pure function of /repo's working tree and VERIF_SEED.",
    }
    if not na:
        m["not_applicable"] = []
    json.dump(m, open("/verif/MANIFEST.json", "w"), indent=1)
    print("wrote MANIFEST.json: %d checks, %d not_applicable" % (len(checks), len(na)))

main()
