#!/usr/bin/env python3
"""Regenerates /verif/MANIFEST.json from the table below (keeps it valid at all times)."""
import json, subprocess, sys

BUILT = sys.argv[1].split(",") if len(sys.argv) > 1 else []

P = {
 "C01": ("exploration", "5/C01", "proptest generation inside exhaustively enumerated configuration cells; round-trip through an independent ISO 18004 reference decoder",
         "Every (version, level, mask setting) combination is built in every run with generated boundary-biased payloads and must decode, with the independent reference decoder, to exactly one segment equal to the input. Exhaustive over configuration cells, sampled over payload content; no absence proof.",
         "Trusted: refmodel reference decoder (self-tested against the third-party qrcode crate on 480 symbols, Table 9 identities), proptest."),
}

def main():
    repo_commits = subprocess.run(["git", "-C", "/repo", "log", "--format=%H %s"], capture_output=True, text=True).stdout.splitlines()
    hook_commits = [l.split()[0] for l in repo_commits if " verif hook:" in l]
    checks = []
    na = []
    for pid in ["C%02d" % i for i in range(1, 20)]:
        if pid in BUILT and pid in P:
            cat, ref, tech, text, note = P[pid]
            checks.append({
                "property_id": pid,
                "quick_cmd": "./check.sh %s quick" % pid,
                "thorough_cmd": "./check.sh %s thorough" % pid,
                "evidence_file": "/verif/evidence/%s.json" % pid,
                "replay_cmd_template": "./check.sh %s --replay {path}" % pid,
                "engine": "fqv",
                "level_claimed": {"category": cat, "text": text, "design_ref": "DESIGN.md §" + ref},
                "level_note": note,
                "technique": tech,
            })
        else:
            na.append({"property_id": pid, "reason": "check not built yet in this session (planned: see DESIGN.md §5); nothing is claimed for it"})
    m = {
        "version": 1,
        "setup_cmd": "./check.sh setup",
        "hooks": {
            "guard": "--cfg fast_qr_verif",
            "enable": "RUSTFLAGS='--cfg fast_qr_verif' (set in /verif/harness/.cargo/config.toml [build] rustflags; cargo-fuzz targets get it through the RUSTFLAGS environment variable)",
            "baseline_off_cmd": "cd /repo && cargo test --workspace --no-fail-fast --offline",
            "source_commits": hook_commits,
            "add_only": True,
        },
        "engines": [
            {"name": "fqv", "path": "/verif/harness/fqv", "serves_properties": [c["property_id"] for c in checks],
             "kind_free_text": "Rust binary: proptest strategies driven by a deterministic sharded runner (seeded from VERIF_SEED), exhaustive enumeration of the finite configuration dimensions, oracles from the independent reference model in /verif/harness/refmodel, shrinking to a JSON replay"},
        ],
        "checks": checks,
        "not_applicable": na,
        "notes": "All commands run with cwd=/verif. Exit 0 = held, 1 = VIOLATION line printed, 2 = inconclusive/infrastructure (build failure, watchdog, oracle self-test). Runs are a pure function of /repo's working tree and VERIF_SEED.",
    }
    if not na:
        m["not_applicable"] = []
    json.dump(m, open("/verif/MANIFEST.json", "w"), indent=1)
    print("wrote MANIFEST.json: %d checks, %d not_applicable" % (len(checks), len(na)))

main()
