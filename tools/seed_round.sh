#!/bin/bash
# confirm round-N seeds delivered under $SEEDROOT/<ID>/seed and run the quick checks of the named property against each
#   usage: SEEDROOT=/tmp/seed2 tools/seed_round.sh -r2 C12 C13 ...
SUF="$1"; shift
for ID in "$@"; do
  SEEDROOT="${SEEDROOT:-/tmp/seed2}" /verif/tools/confirm_seed.sh "$ID" "$SUF" 2>&1 | tail -2
done
LIST=$(for ID in "$@"; do [ -d /verif/seeded/$ID$SUF ] && echo -n "$ID$SUF,"; done)
[ -n "$LIST" ] && python3 /verif/tools/mutants.py --seeds "${LIST%,}" --jobs 3 2>&1 | grep -v "^WARNING"
