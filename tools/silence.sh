#!/bin/bash
# Run every check's quick (or thorough) tier on the unchanged tree with several seeds; any non-zero exit is reported.
#   tools/silence.sh <nseeds> [quick|thorough] [first-seed]
# Uses the directory it is started from as the verification root (so it can run from a `vp run` snapshot).
N="${1:-5}"; TIER="${2:-quick}"; S0="${3:-1}"
export FQV_VERIF_DIR="$(pwd)"
./check.sh setup >/dev/null 2>&1 || { echo "setup failed"; exit 2; }
bad=0
for s in $(seq "$S0" $((S0+N-1))); do
  for i in 01 02 03 04 05 06 07 08 09 10 11 12 13 14 15 16 17 18 19; do
    out=$(VERIF_SEED=$s VERIF_TIER=$TIER ./check.sh C$i $TIER 2>&1); rc=$?
    if [ $rc -ne 0 ]; then bad=$((bad+1)); echo "seed=$s C$i rc=$rc"; echo "$out" | tail -6; fi
  done
  echo "seed $s done (failures so far: $bad)"
done
echo "SILENCE-RESULT tier=$TIER seeds=$S0..$((S0+N-1)) failures=$bad"
[ $bad -eq 0 ]
