#!/usr/bin/env python3
"""Replaces the table between the evidence-table markers of DESIGN.md with the output of tools/evidence_table.py."""
import subprocess, re
t = subprocess.run(["python3", "/verif/tools/evidence_table.py"], capture_output=True, text=True).stdout
p = "/verif/DESIGN.md"
s = open(p).read()
a = s.index("<!-- evidence-table-begin -->") + len("<!-- evidence-table-begin -->")
b = s.index("<!-- evidence-table-end -->")
s = s[:a] + "\n" + t + s[b:]
open(p, "w").write(s)
print("table refreshed")
