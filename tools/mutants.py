#!/usr/bin/env python3
"""Sensitivity runs: apply one small edit to /repo's working tree, confirm the pinned test suite
still passes, run the listed checks (quick tier), record which fire, and revert the edit.

usage: mutants.py [--only M01,M02] [--checks C01,C02] [--tier quick] [--skip-tests]

Never commits anything in /repo; the working tree is restored with `git checkout -- .` after every
mutant (and on Ctrl-C)."""
import json, os, subprocess, sys, time

REPO = "/repo"
VERIF = "/verif"

# (id, expected properties, file, old, new, note)
M = [
 ("M01", ["C02", "C01"], "src/hardcode.rs", "(2 << 24) | (68 << 16),  // (0 << 8) | 0", "(2 << 24) | (67 << 16) | (0 << 8) | 0,", "L V6 block size 68->67"),
]

def sh(cmd, cwd=None, timeout=3600):
    return subprocess.run(cmd, shell=True, cwd=cwd, capture_output=True, text=True, timeout=timeout)

def load_extra():
    p = os.path.join(VERIF, "tools", "mutants.json")
    if os.path.exists(p):
        for e in json.load(open(p)):
            M.append((e["id"], e["expect"], e["file"], e["old"], e["new"], e.get("note", "")))

def main():
    args = sys.argv[1:]
    only = None
    checks_override = None
    tier = "quick"
    skip_tests = False
    i = 0
    while i < len(args):
        if args[i] == "--only":
            only = args[i + 1].split(","); i += 2
        elif args[i] == "--checks":
            checks_override = args[i + 1].split(","); i += 2
        elif args[i] == "--tier":
            tier = args[i + 1]; i += 2
        elif args[i] == "--skip-tests":
            skip_tests = True; i += 1
        else:
            i += 1
    load_extra()
    assert sh("git status --porcelain", cwd=REPO).stdout.strip() == "", "/repo working tree not clean"
    results = []
    try:
        for (mid, expect, path, old, new, note) in M:
            if only and mid not in only:
                continue
            full = os.path.join(REPO, path)
            src = open(full).read()
            if src.count(old) != 1:
                print(f"{mid}: SKIP pattern occurs {src.count(old)} times in {path}")
                results.append({"id": mid, "status": "pattern_mismatch"})
                continue
            open(full, "w").write(src.replace(old, new))
            try:
                tests_ok = None
                if not skip_tests:
                    t = sh("cargo test --workspace --no-fail-fast --offline --lib 2>&1 | grep 'test result'", cwd=REPO)
                    tests_ok = "174 passed; 0 failed" in t.stdout
                fired = {}
                for c in (checks_override or expect):
                    t0 = time.time()
                    r = sh(f"./check.sh {c} {tier}", cwd=VERIF)
                    viol = [l for l in r.stdout.splitlines() if l.startswith("VIOLATION")]
                    detail = [l for l in r.stdout.splitlines() if l.strip().startswith("detail:")]
                    fired[c] = {"rc": r.returncode, "violation": bool(viol), "wall": round(time.time() - t0, 1),
                                "detail": (detail[0][:300] if detail else (r.stdout[-300:] if r.returncode not in (0, 1) else ""))}
                det = [c for c, v in fired.items() if v["rc"] == 1 and v["violation"]]
                print(f"{mid}: tests_pass={tests_ok} detected_by={det} missed_by={[c for c in fired if c not in det]}  ({note})")
                for c, v in fired.items():
                    if v["detail"]:
                        print(f"     {c}: {v['detail']}")
                results.append({"id": mid, "note": note, "tests_pass": tests_ok, "fired": fired})
            finally:
                sh("git checkout -- .", cwd=REPO)
    finally:
        sh("git checkout -- .", cwd=REPO)
    out = os.path.join(VERIF, "tools", "mutants_last_run.json")
    json.dump(results, open(out, "w"), indent=1)

main()
