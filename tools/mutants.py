#!/usr/bin/env python3
"""Sensitivity runs against scratch copies (never touches /repo or /verif).

For each mutant (a one-place edit from tools/mutants.json, or a patch file) a scratch slot under
/tmp/fqmut/<slot>/ holds
    repo/    a detached git worktree of /repo's HEAD with the edit applied
    verif/   a copy of /verif (without build output) whose harness depends on that repo
the pinned test suite is run in repo/, the harness is rebuilt once, and the listed checks are run
(quick tier by default) with FQV_VERIF_DIR pointing at the scratch verif. Results go to
tools/mutants_results.json (merged by mutant id).

usage: mutants.py [--only M01,M02] [--checks C01,C02 | --all-checks] [--tier quick] [--jobs 4]
                  [--patch file.diff --id S01 --expect C05]   (a patch instead of the table)
                  [--cleanup]
"""
import json, os, shutil, subprocess, sys, time
from concurrent.futures import ThreadPoolExecutor

REPO = "/repo"
VERIF = "/verif"
ROOT = os.environ.get("FQMUT_ROOT", "/tmp/fqmut")
ALL = ["C%02d" % i for i in range(1, 20)]
HARVEST = False


def sh(cmd, cwd=None, env=None, timeout=7200):
    e = dict(os.environ)
    e["CARGO_NET_OFFLINE"] = "true"
    if env:
        e.update(env)
    return subprocess.run(cmd, shell=True, cwd=cwd, capture_output=True, text=True, timeout=timeout, env=e)


def setup_slot(slot):
    d = os.path.join(ROOT, str(slot))
    repo = os.path.join(d, "repo")
    verif = os.path.join(d, "verif")
    if not os.path.exists(repo):
        os.makedirs(d, exist_ok=True)
        r = sh(f"git -C {REPO} worktree add --detach {repo} HEAD")
        assert r.returncode == 0, r.stderr
        # pre-built test target to avoid a cold build of the dev profile
        if os.path.exists(f"{REPO}/target"):
            sh(f"cp -a {REPO}/target {repo}/target")
    else:
        sh("git checkout -- . && git clean -fdq -e target", cwd=repo)
        sh(f"git checkout -q --detach $(git -C {REPO} rev-parse HEAD)", cwd=repo)
    # fresh copy of /verif sources (cheap), keep the slot's target dir
    os.makedirs(verif, exist_ok=True)
    # the scratch copy is the COMMITTED state of /verif (git archive), so editing /verif while a sensitivity run is in
    # progress cannot give it a half-edited harness; commit before running
    sh(f"find {verif} -mindepth 1 -maxdepth 1 ! -name harness ! -name fuzz -exec rm -rf {{}} +")
    sh(f"find {verif}/harness -mindepth 1 -maxdepth 1 ! -name target -exec rm -rf {{}} + 2>/dev/null; find {verif}/fuzz -mindepth 1 -maxdepth 1 ! -name target -exec rm -rf {{}} + 2>/dev/null")
    sh(f"git -C {VERIF} archive {os.environ.get('FQ_VERIF_REF', 'HEAD')} | tar -x -C {verif}")
    os.makedirs(f"{verif}/evidence", exist_ok=True)
    if not os.path.exists(f"{verif}/harness/target") and os.path.exists(f"{VERIF}/harness/target"):
        sh(f"cp -a {VERIF}/harness/target {verif}/harness/target")
    if not os.path.exists(f"{verif}/fuzz/target") and os.path.exists(f"{VERIF}/fuzz/target"):
        sh(f"cp -a {VERIF}/fuzz/target {verif}/fuzz/target")
    ct = f"{verif}/harness/fqv/Cargo.toml"
    s = open(ct).read().replace('path = "/repo"', f'path = "{repo}"')
    open(ct, "w").write(s)
    return repo, verif


def run_mutant(slot, m, checks, tier, skip_tests):
    repo, verif = setup_slot(slot)
    res = {"id": m["id"], "note": m.get("note", ""), "expect": m.get("expect", [])}
    if "patch" in m:
        r = sh(f"git apply {m['patch']}", cwd=repo)
        if r.returncode != 0:
            res["status"] = "patch_does_not_apply: " + r.stderr[:200]
            return res
    else:
        full = os.path.join(repo, m["file"])
        src = open(full).read()
        if src.count(m["old"]) != 1:
            res["status"] = f"pattern occurs {src.count(m['old'])} times"
            return res
        open(full, "w").write(src.replace(m["old"], m["new"]))
    if not skip_tests:
        t = sh("cargo test --workspace --no-fail-fast --offline --lib 2>&1 | grep 'test result'", cwd=repo)
        res["tests_pass"] = "174 passed; 0 failed" in t.stdout
        res["tests_line"] = t.stdout.strip()[:120]
    b = sh("cargo build --release --offline -p fqv 2>&1 | tail -30", cwd=f"{verif}/harness")
    if not os.path.exists(f"{verif}/harness/target/release/fqv") or "error" in b.stdout and "could not compile" in b.stdout:
        res["status"] = "harness_build_failed"
        res["build_tail"] = b.stdout[-600:]
        return res
    # the pass against fast_qr compiled without the verification flag (see check.sh), where the snapshot has one
    plain = None
    if "build_plain" in open(f"{verif}/check.sh").read():
        sh('RUSTFLAGS="--cfg fqv_plain" cargo build --release --offline -p fqv --target-dir target-plain 2>&1 | tail -5', cwd=f"{verif}/harness")
        if os.path.exists(f"{verif}/harness/target-plain/release/fqv"):
            plain = f"{verif}/harness/target-plain/release/fqv"
    fired = {}
    for c in checks:
        t0 = time.time()
        rp = None
        if plain and tier != "fuzz" and c not in ("C07", "C11", "C17"):
            rp = sh(f"{plain} {c} quick", cwd=verif, env={"FQV_VERIF_DIR": verif, "VERIF_TIER": "quick"})
        if rp is not None and rp.returncode == 1:
            r = rp   # check.sh stops here as well
        elif tier == "fuzz":
            # coverage-guided campaign only (the evidence file it merges into must exist: run the quick tier first)
            sh(f"{verif}/harness/target/release/fqv {c} quick", cwd=verif, env={"FQV_VERIF_DIR": verif})
            r = sh(f"{verif}/fuzz/run_campaign.sh {c}", cwd=verif, env={"FQV_VERIF_DIR": verif, "FQV_FUZZ_RUNS": os.environ.get("FQV_FUZZ_RUNS", "30000")})
        else:
            r = sh(f"{verif}/harness/target/release/fqv {c} {tier}", cwd=verif, env={"FQV_VERIF_DIR": verif})
        lines = r.stdout.splitlines()
        viol = [l for l in lines if l.startswith("VIOLATION")]
        detail = [l.strip() for l in lines if l.strip().startswith("detail:")]
        fired[c] = {"rc": r.returncode, "violation": bool(viol), "wall": round(time.time() - t0, 1), "via_plain_build": r is rp,
                    "detail": detail[0][:400] if detail else ("" if r.returncode in (0, 1) else (r.stdout + r.stderr)[-300:])}
        # keep the first replay for the record
        if viol:
            try:
                path = viol[0].split("replay=")[1].strip()
                doc = json.load(open(path))
                fired[c]["replay_sig"] = doc.get("signature", "")
                # harvest the shrunk case as a sentinel for the seconds-long regress tier of /verif (only cases produced by
                # the generators, not the regress files themselves); it must hold on the unchanged tree, which every
                # quick run re-checks
                if HARVEST and "/regress/" not in path and c in m.get("expect", [c]):
                    d = f"{VERIF}/regress/{c}"
                    os.makedirs(d, exist_ok=True)
                    dst = f"{d}/sentinel_{m['id'].replace('/', '_')}.json"
                    if not os.path.exists(dst):
                        doc["sentinel_for"] = f"{m['id']}: {m.get('note', '')[:200]}"
                        doc.pop("seed", None)
                        json.dump(doc, open(dst, "w"), indent=1)
            except Exception as ex:
                fired[c]["harvest_error"] = repr(ex)
    res["fired"] = fired
    res["detected_by"] = [c for c, v in fired.items() if v["rc"] == 1 and v["violation"]]
    res["status"] = "ok"
    return res


def main():
    a = sys.argv[1:]
    opt = {"only": None, "checks": None, "tier": "quick", "jobs": 4, "skip_tests": False, "patch": None, "id": None, "expect": None, "all": False}
    i = 0
    while i < len(a):
        if a[i] == "--only": opt["only"] = a[i + 1].split(","); i += 2
        elif a[i] == "--checks": opt["checks"] = a[i + 1].split(","); i += 2
        elif a[i] == "--all-checks": opt["all"] = True; i += 1
        elif a[i] == "--tier": opt["tier"] = a[i + 1]; i += 2
        elif a[i] == "--jobs": opt["jobs"] = int(a[i + 1]); i += 2
        elif a[i] == "--skip-tests": opt["skip_tests"] = True; i += 1
        elif a[i] == "--harvest":
            global HARVEST
            HARVEST = True; i += 1
        elif a[i] == "--patch": opt["patch"] = os.path.abspath(a[i + 1]); i += 2
        elif a[i] == "--id": opt["id"] = a[i + 1]; i += 2
        elif a[i] == "--expect": opt["expect"] = a[i + 1].split(","); i += 2
        elif a[i] == "--seeds":
            opt["seeds"] = a[i + 1].split(",") if i + 1 < len(a) and not a[i + 1].startswith("--") else ["all"]; i += 2 if opt["seeds"] != ["all"] else 1
        elif a[i] == "--cleanup":
            for d in sorted(os.listdir(ROOT)) if os.path.exists(ROOT) else []:
                sh(f"git -C {REPO} worktree remove --force {ROOT}/{d}/repo")
            shutil.rmtree(ROOT, ignore_errors=True)
            sh(f"git -C {REPO} worktree prune")
            print("cleaned"); return
        else: i += 1
    if opt.get("seeds"):
        muts = []
        for d in sorted(os.listdir(f"{VERIF}/seeded")):
            if opt["seeds"] != ["all"] and d not in opt["seeds"]:
                continue
            meta = json.load(open(f"{VERIF}/seeded/{d}/meta.json"))
            muts.append({"id": "S-" + d, "patch": f"{VERIF}/seeded/{d}/patch.diff", "expect": [meta.get("property", d[:3])], "note": meta.get("summary", "")[:160]})
    elif opt["patch"]:
        muts = [{"id": opt["id"] or "PATCH", "patch": opt["patch"], "expect": opt["expect"] or [], "note": os.path.basename(opt["patch"])}]
    else:
        muts = json.load(open(f"{VERIF}/tools/mutants.json"))
        if opt["only"]:
            muts = [m for m in muts if m["id"] in opt["only"]]
    jobs = max(1, min(opt["jobs"], len(muts)))
    queue = list(muts)
    results = []

    def worker(slot):
        out = []
        while queue:
            try:
                m = queue.pop(0)
            except IndexError:
                break
            checks = ALL if opt["all"] else (opt["checks"] or m.get("expect") or ALL)
            try:
                r = run_mutant(slot, m, checks, opt["tier"], opt["skip_tests"])
            except Exception as e:
                r = {"id": m["id"], "status": "exception: %r" % e}
            det = r.get("detected_by")
            print(f"{r['id']}: status={r.get('status')} tests_pass={r.get('tests_pass')} detected_by={det} "
                  f"missed_by={[c for c in r.get('fired', {}) if c not in (det or [])]} ({r.get('note','')})", flush=True)
            for c, v in r.get("fired", {}).items():
                if v.get("detail"):
                    print(f"      {c} [{v.get('replay_sig','')}] {v['detail'][:260]}", flush=True)
            out.append(r)
        return out

    with ThreadPoolExecutor(max_workers=jobs) as ex:
        for out in ex.map(worker, range(jobs)):
            results.extend(out)
    path = os.environ.get("FQ_RESULTS", f"{VERIF}/tools/mutants_results.json")
    old = {}
    if os.path.exists(path):
        old = {r["id"]: r for r in json.load(open(path))}
    for r in results:
        old[r["id"]] = r
    json.dump(sorted(old.values(), key=lambda r: r["id"]), open(path, "w"), indent=1)


main()
