#!/usr/bin/env python3
"""Prints the sensitivity tables of DESIGN.md §12 from tools/mutants_results.json and seeded/*/meta.json."""
import json, os, glob
R = {m["id"]: m for m in json.load(open("/verif/tools/mutants_results.json"))}
def row(m):
    det = ", ".join(m.get("detected_by", [])) or "—"
    return det
print("| id | edit (one place unless noted) | passes the 174 tests | detected by (quick tier) |")
print("|---|---|---|---|")
for k in sorted(R):
    m = R[k]
    if k.startswith("S-"): continue
    note = m["note"].split(" [INVALID")[0]
    print(f"| {k} | {note[:110]} | {'yes' if m.get('tests_pass') else 'no'} | {row(m)} |")
print()
print("| seeded change | property | what it needs to manifest | own check (quick) | other checks that also fire |")
print("|---|---|---|---|---|")
for d in sorted(os.listdir("/verif/seeded")):
    meta = json.load(open(f"/verif/seeded/{d}/meta.json"))
    pid = meta.get("property", d[:3])
    m = R.get("S-" + d)
    det = m.get("detected_by", []) if m else []
    own = "detected" if pid in det else ("MISSED" if m else "not run")
    others = ", ".join(c for c in det if c != pid) or "—"
    needs = meta.get("needs", "").replace("\n", " ").replace("|", "/")
    print(f"| {d} | {pid} | {needs[:230]} | {own} | {others} |")
