#!/bin/bash
# confirm a seeded change delivered by a sub-agent in /tmp/seed/<ID>/seed:
#   patch applies, 174 tests pass with it, demo fails with it, demo passes without it.
# then copy patch.diff, demo.rs, meta.json to /verif/seeded/<ID>/
ID="$1"; SUF="${2:-}"
ROOT="${SEEDROOT:-/tmp/seed}"; W=$ROOT/$ID
cd "$W" || exit 2
export CARGO_NET_OFFLINE=true
git checkout -q -- src 2>/dev/null
FLAGS=""
if grep -q "verif_hooks\|verif_wasm_host" seed/demo.rs; then FLAGS="--cfg fast_qr_verif"; fi
cp seed/demo.rs examples/seed_demo.rs
git apply seed/patch.diff || { echo "$ID: PATCH DOES NOT APPLY"; exit 1; }
T=$(cargo test --workspace --no-fail-fast --offline --lib 2>&1 | grep "test result" | head -1)
RUSTFLAGS="$FLAGS" cargo run --offline --features image --example seed_demo >$ROOT/$ID.with.log 2>&1; RC_WITH=$?
git checkout -q -- src
RUSTFLAGS="$FLAGS" cargo run --offline --features image --example seed_demo >$ROOT/$ID.without.log 2>&1; RC_WITHOUT=$?
echo "$ID: tests='$T' demo_with_patch_rc=$RC_WITH demo_without_patch_rc=$RC_WITHOUT flags='$FLAGS'"
if echo "$T" | grep -q "174 passed; 0 failed" && [ $RC_WITH -ne 0 ] && [ $RC_WITHOUT -eq 0 ]; then
  D=/verif/seeded/$ID$SUF; mkdir -p $D
  cp seed/patch.diff seed/demo.rs $D/
  python3 - "$ID" "$D" "$T" "$RC_WITH" "$RC_WITHOUT" "$FLAGS" <<'PY'
import json,sys
ID,D,T,RW,RWO,FLAGS=sys.argv[1:7]
try: meta=json.load(open('seed/meta.json'))
except Exception as e: meta={"property":ID,"summary":"(agent meta.json unreadable: %r)"%e}
meta["confirmed_by_builder"]={"tests_with_patch":T,"demo_with_patch_exit":int(RW),"demo_without_patch_exit":int(RWO),
  "demo_command":("RUSTFLAGS='%s' "%FLAGS if FLAGS else "")+"cargo run --offline --features image --example seed_demo (demo.rs copied to examples/seed_demo.rs)",
  "how":"tools/confirm_seed.sh in the agent's scratch worktree: git apply patch.diff; cargo test --workspace --no-fail-fast --offline --lib; run demo; git checkout -- src; run demo"}
json.dump(meta,open(D+'/meta.json','w'),indent=1,ensure_ascii=False)
PY
  echo "$ID: CONFIRMED -> $D"
else
  echo "$ID: NOT CONFIRMED"; tail -5 $ROOT/$ID.with.log; tail -5 $ROOT/$ID.without.log
fi
