#!/bin/bash
# tools/thorough_subset.sh <seed> <ID>...   thorough tier of the listed checks from the directory it is started in
S="$1"; shift
export FQV_VERIF_DIR="$(pwd)"
./check.sh setup >/dev/null 2>&1 || { echo "setup failed"; exit 2; }
bad=0
for id in "$@"; do
  out=$(VERIF_SEED=$S VERIF_TIER=thorough ./check.sh $id thorough 2>&1); rc=$?
  echo "$id rc=$rc $(echo "$out" | grep -E "thorough seed=|fuzz target=" | tr '\n' ' ' | cut -c1-300)"
  if [ $rc -ne 0 ]; then bad=$((bad+1)); echo "$out" | tail -6; fi
done
echo "SUBSET-RESULT seed=$S failures=$bad"
[ $bad -eq 0 ]
