#!/usr/bin/env python3
"""Deterministic seed corpora for the libFuzzer targets (committed under fuzz/seeds/<target>/).
build/masks: 5 header bytes [mode sel, level sel, version sel, mask sel, repetition] + payload (see fuzzdec::build_case)."""
import os, hashlib
ROOT = "/verif/fuzz/seeds"
def rnd(tag, n):
    out = b""; i = 0
    while len(out) < n:
        out += hashlib.sha256(f"{tag}/{i}".encode()).digest(); i += 1
    return out[:n]
def put(t, name, data):
    d = f"{ROOT}/{t}"; os.makedirs(d, exist_ok=True)
    open(f"{d}/{name}", "wb").write(data)
n = 0
for ms in range(9):
    for (ln, rs) in [(0, 0), (1, 0), (7, 0), (16, 0), (17, 0), (40, 0), (100, 0), (255, 0), (300, 9), (64, 12), (80, 13), (80, 14), (27, 15), (1500, 0), (2953, 0), (3000, 10)]:
        ls = (ms + ln) % 5
        vs = [0, 0, 1, 7, 10, 27, 40, 41][(ms * 3 + ln) % 8]
        ks = [8, 0, 3, 5, 7, 200][(ms + ln) % 6]
        put("build", f"b_{ms}_{ln}_{rs}", bytes([ms, ls, vs, ks, rs]) + rnd(f"b{ms}{ln}", ln))
        n += 1
for k in range(24):
    ms, ls = k % 9, k % 5
    ln = [3, 9, 14, 20, 33, 60, 120, 200][k % 8]
    put("masks", f"m_{k}", bytes([ms, ls, [0, 1, 2, 3, 7, 10][k % 6], 8, 0]) + rnd(f"m{k}", ln))
for t, sizes in [("svg", [0, 8, 24, 48, 96, 160]), ("wasm", [0, 6, 20, 60, 150, 400]), ("division", [2, 20, 60, 125, 160]), ("history", [0, 10, 40, 120, 300])]:
    for i, sz in enumerate(sizes):
        for j in range(4):
            put(t, f"{t[0]}_{sz}_{j}", rnd(f"{t}{sz}{j}", sz) if j else bytes(sz))
for k in range(16):
    put("build", f"st_{k}", bytes([9, k % 4, [0, 2, 11, 17, 30, 39][k % 6] * 6 + 3, k % 8, k % 4]) + rnd(f"st{k}", 6 * 4 + 40))
print("seed files written")  # steered
