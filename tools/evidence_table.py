#!/usr/bin/env python3
"""Markdown table of what the committed evidence files (last quick run) covered; pasted into DESIGN.md §13."""
import json, glob
print("| id | tier | cases evaluated | distinct non-trivial | exhaustive part | wall (s, 16 cores) |")
print("|---|---|---|---|---|---|")
for f in sorted(glob.glob("/verif/evidence/C*.json")):
    d = json.load(open(f)); c = d["coverage"]
    ex = c.get("exhaustive_over", "") if c.get("exhaustive") else "—"
    print(f"| {d['property_id']} | {d['tier']} | {c['evaluations']:,} | {c['distinct_nontrivial']:,} | {ex[:150]} | {d['wall_s']:.1f} |")
